// C02 -- AES block encryption and the AES-CTR stream equal FIPS-197 / SP 800-38A.
// Oracle: byte-wise FIPS-197 written here (S-box computed from GF(2^8) inversion + affine map), validated at start-up
// against FIPS-197 Appendix B/C vectors and cross-checked against OpenSSL EVP aes-{128,256}-ecb.  libcperciva's
// software AES path *is* OpenSSL, so OpenSSL is never the judge of a case.  DESIGN.md §4 C02.
#include "pbt.h"
#include "shim.h"

#include <openssl/evp.h>
#include <unistd.h>
#include <sys/mman.h>

using namespace pbt;

// Memory footprint: rapidcheck's deep, varying call chains make ASan's stack depot grow by ~3 KB per 1000 cases with
// the default 30-frame allocation stacks, and the default 256 MB free-quarantine is pointless for these pure functions.
// (Defaults only: anything set in the ASAN_OPTIONS environment by ./check wins.  Error stacks themselves stay complete.)
extern "C" const char *__asan_default_options() { return "malloc_context_size=6:quarantine_size_mb=32"; }

[[noreturn]] static void harness_error(const std::string &m) {
  fprintf(stderr, "HARNESS-ERROR (C02): %s\n", m.c_str());
  fflush(stderr);
  _exit(3);
}

// ------------------------------------------------------------------ reference AES (FIPS-197)
static uint8_t SB[256], MUL2[256], MUL3[256], RCON[16];
static uint8_t gmul(uint8_t a, uint8_t b) {  // multiplication in GF(2^8) modulo x^8+x^4+x^3+x+1
  uint8_t p = 0;
  for (int i = 0; i < 8; i++) {
    if (b & 1) p ^= a;
    bool hi = a & 0x80;
    a = (uint8_t)(a << 1);
    if (hi) a ^= 0x1b;
    b >>= 1;
  }
  return p;
}
static uint8_t rotl8(uint8_t x, int n) { return (uint8_t)((x << n) | (x >> (8 - n))); }
static void ref_init() {
  for (int x = 0; x < 256; x++) {
    uint8_t inv = 0;
    if (x)
      for (int y = 1; y < 256; y++)
        if (gmul((uint8_t)x, (uint8_t)y) == 1) {
          inv = (uint8_t)y;
          break;
        }
    SB[x] = (uint8_t)(inv ^ rotl8(inv, 1) ^ rotl8(inv, 2) ^ rotl8(inv, 3) ^ rotl8(inv, 4) ^ 0x63);  // FIPS-197 eq. 5.1
    MUL2[x] = gmul((uint8_t)x, 2);
    MUL3[x] = gmul((uint8_t)x, 3);
  }
  uint8_t r = 1;
  for (int j = 1; j < 16; j++) {  // Rcon[j] = x^(j-1)
    RCON[j] = r;
    r = gmul(r, 2);
  }
}
struct RefKey {
  int Nr = 0;
  uint8_t rk[15][16];
};
static RefKey ref_expand(const std::string &key) {  // FIPS-197 §5.2
  RefKey k;
  int Nk = (int)key.size() / 4;
  k.Nr = Nk + 6;
  uint8_t w[60][4];
  for (int i = 0; i < Nk; i++)
    for (int j = 0; j < 4; j++) w[i][j] = (uint8_t)key[4 * i + j];
  for (int i = Nk; i < 4 * (k.Nr + 1); i++) {
    uint8_t t[4] = {w[i - 1][0], w[i - 1][1], w[i - 1][2], w[i - 1][3]};
    if (i % Nk == 0) {
      uint8_t t0 = t[0];
      t[0] = (uint8_t)(SB[t[1]] ^ RCON[i / Nk]);
      t[1] = SB[t[2]];
      t[2] = SB[t[3]];
      t[3] = SB[t0];
    } else if (Nk > 6 && i % Nk == 4)
      for (int j = 0; j < 4; j++) t[j] = SB[t[j]];
    for (int j = 0; j < 4; j++) w[i][j] = (uint8_t)(w[i - Nk][j] ^ t[j]);
  }
  for (int r = 0; r <= k.Nr; r++)
    for (int c = 0; c < 4; c++)
      for (int j = 0; j < 4; j++) k.rk[r][4 * c + j] = w[4 * r + c][j];
  return k;
}
static void ref_encrypt(const RefKey &k, const uint8_t in[16], uint8_t out[16]) {  // FIPS-197 §5.1; state index = row + 4*col
  uint8_t s[16], t[16];
  for (int i = 0; i < 16; i++) s[i] = in[i] ^ k.rk[0][i];
  for (int r = 1; r <= k.Nr; r++) {
    for (int c = 0; c < 4; c++)  // SubBytes + ShiftRows
      for (int row = 0; row < 4; row++) t[row + 4 * c] = SB[s[row + 4 * ((c + row) & 3)]];
    if (r < k.Nr) {
      for (int c = 0; c < 4; c++) {  // MixColumns
        const uint8_t *a = t + 4 * c;
        s[4 * c + 0] = (uint8_t)(MUL2[a[0]] ^ MUL3[a[1]] ^ a[2] ^ a[3]);
        s[4 * c + 1] = (uint8_t)(a[0] ^ MUL2[a[1]] ^ MUL3[a[2]] ^ a[3]);
        s[4 * c + 2] = (uint8_t)(a[0] ^ a[1] ^ MUL2[a[2]] ^ MUL3[a[3]]);
        s[4 * c + 3] = (uint8_t)(MUL3[a[0]] ^ a[1] ^ a[2] ^ MUL2[a[3]]);
      }
    } else
      memcpy(s, t, 16);
    for (int i = 0; i < 16; i++) s[i] ^= k.rk[r][i];
  }
  memcpy(out, s, 16);
}
static std::string ossl_ecb(const std::string &key, const std::string &blocks) {
  EVP_CIPHER_CTX *c = EVP_CIPHER_CTX_new();
  std::string out(blocks.size() + 32, 0);
  int n = 0, n2 = 0;
  if (!c || EVP_EncryptInit_ex(c, key.size() == 16 ? EVP_aes_128_ecb() : EVP_aes_256_ecb(), nullptr, (const unsigned char *)key.data(), nullptr) != 1 ||
      EVP_CIPHER_CTX_set_padding(c, 0) != 1 ||
      EVP_EncryptUpdate(c, (unsigned char *)&out[0], &n, (const unsigned char *)blocks.data(), (int)blocks.size()) != 1 ||
      EVP_EncryptFinal_ex(c, (unsigned char *)&out[n], &n2) != 1)
    harness_error("OpenSSL EVP ECB failed");
  EVP_CIPHER_CTX_free(c);
  out.resize(n + n2);
  return out;
}
static void self_test() {
  ref_init();
  if (SB[0x00] != 0x63 || SB[0x53] != 0xed || SB[0xff] != 0x16) harness_error("computed S-box disagrees with FIPS-197 Fig. 7 samples");
  struct {
    const char *key, *pt, *ct;
  } v[] = {// FIPS-197 Appendix B, C.1, C.3
           {"2b7e151628aed2a6abf7158809cf4f3c", "3243f6a8885a308d313198a2e0370734", "3925841d02dc09fbdc118597196a0b32"},
           {"000102030405060708090a0b0c0d0e0f", "00112233445566778899aabbccddeeff", "69c4e0d86a7b0430d8cdb78070b4c55a"},
           {"000102030405060708090a0b0c0d0e0f101112131415161718191a1b1c1d1e1f", "00112233445566778899aabbccddeeff",
            "8ea2b7ca516745bfeafc49904b496089"}};
  for (auto &t : v) {
    RefKey k = ref_expand(unhex(t.key));
    uint8_t out[16];
    ref_encrypt(k, (const uint8_t *)unhex(t.pt).data(), out);
    if (hex(std::string((char *)out, 16)) != t.ct) harness_error(std::string("reference AES fails FIPS-197 vector, key ") + t.key);
  }
  // FIPS-197 Appendix A.3: last word of the AES-256 expansion of 603deb10...
  {
    RefKey k = ref_expand(unhex("603deb1015ca71be2b73aef0857d77811f352c073b6108d72d9810a30914dff4"));
    if (hex(std::string((char *)k.rk[14] + 12, 4)) != "706c631e") harness_error("reference key expansion fails FIPS-197 A.3");
  }
  // cross-check against OpenSSL EVP on pseudo-random keys/blocks
  for (int i = 0; i < 400; i++) {
    std::string key = prbytes(1000 + i, i % 2 ? 32 : 16), blk = prbytes(5000 + i, 64);
    RefKey k = ref_expand(key);
    std::string mine(64, 0);
    for (int b = 0; b < 4; b++) ref_encrypt(k, (const uint8_t *)blk.data() + 16 * b, (uint8_t *)&mine[16 * b]);
    if (mine != ossl_ecb(key, blk)) harness_error("reference AES disagrees with OpenSSL EVP ECB");
  }
}

// reference CTR keystream, computed lazily and memoised per (key, nonce) -- a pure function of its arguments
struct RefStream {
  std::string key;
  uint64_t nonce = 0;
  RefKey rk;
  std::vector<uint8_t> ks;
  uint64_t stamp = 0;
  void need(size_t n) {
    while (ks.size() < n) {
      uint64_t idx = ks.size() / 16;
      uint8_t ctr[16];
      for (int i = 0; i < 8; i++) ctr[i] = (uint8_t)(nonce >> (56 - 8 * i));
      for (int i = 0; i < 8; i++) ctr[8 + i] = (uint8_t)(idx >> (56 - 8 * i));
      ks.resize(ks.size() + 16);
      ref_encrypt(rk, ctr, &ks[ks.size() - 16]);
    }
  }
};
static RefStream &ref_stream(const std::string &key, uint64_t nonce) {
  static std::vector<RefStream> cache(6);
  static uint64_t clock = 0;
  RefStream *lru = &cache[0];
  for (auto &r : cache) {
    if (r.key == key && r.nonce == nonce && !r.key.empty()) {
      r.stamp = ++clock;
      return r;
    }
    if (r.stamp < lru->stamp) lru = &r;
  }
  lru->key = key;
  lru->nonce = nonce;
  lru->rk = ref_expand(key);
  lru->ks.clear();
  lru->ks.shrink_to_fit();
  lru->stamp = ++clock;
  return *lru;
}

// ------------------------------------------------------------------ helpers
static uint8_t *exact(const void *p, size_t n) {
  uint8_t *q = (uint8_t *)malloc(n);
  if (!q) harness_error("malloc failed");
  if (n) memcpy(q, p, n);
  return q;
}
// key material: kind 0 pseudo-random(seed), 1 all-zero, 2 all-FF, 3 single bit (seed), 4 explicit bytes
static std::string make_key(int64_t klen, int64_t kind, int64_t seed, const std::string &b) {
  size_t n = klen == 32 ? 32 : 16;  // soundness: 16 or 32 only
  switch (((kind % 5) + 5) % 5) {
  case 1: return std::string(n, '\0');
  case 2: return std::string(n, '\xff');
  case 3: {
    std::string k(n, '\0');
    uint64_t bit = (uint64_t)seed % (8 * n);
    k[bit / 8] = (char)(1 << (bit % 8));
    return k;
  }
  case 4:
    if (b.size() >= n) return b.substr(0, n);
    return prbytes((uint64_t)seed, n);
  default: return prbytes((uint64_t)seed, n);
  }
}
static std::string make_data(int64_t seed, size_t n) {
  if (seed == 0) return std::string(n, '\0');  // output == keystream
  if (seed == 1) return std::string(n, '\xff');
  return prbytes((uint64_t)seed, n);
}
static rc::Gen<int64_t> gen_nonce() {
  return rc::gen::exec([]() -> int64_t {
    int w = *rc::gen::weightedElement<int>({{2, 0}, {2, 1}, {3, 2}, {5, 3}, {1, 4}});
    switch (w) {
    case 0: return 0;
    case 1: return (int64_t)UINT64_MAX;
    case 2: {
      int k = *range<int>(1, 7);
      return (int64_t)(((uint64_t)1 << (8 * k)) + (uint64_t)*range<int>(-1, 0));
    }
    case 3: return *rc::gen::arbitrary<int64_t>();
    default: return *range<int>(1, 300);
    }
  });
}
static const char *nonce_class(uint64_t n) {
  if (n == 0) return "nonce:0";
  if (n == UINT64_MAX) return "nonce:2^64-1";
  for (int k = 1; k < 8; k++)
    if (n == ((uint64_t)1 << (8 * k)) || n == ((uint64_t)1 << (8 * k)) - 1) return "nonce:byte-boundary";
  return n < 1000 ? "nonce:small" : "nonce:random";
}
static rc::Gen<std::vector<int64_t>> gen_keyspec() {  // {klen, kind, seed}
  return rc::gen::exec([]() {
    int64_t klen = *rc::gen::element<int64_t>(16, 32);
    int64_t kind = *rc::gen::weightedElement<int64_t>({{8, 0}, {1, 1}, {1, 2}, {2, 3}});
    return std::vector<int64_t>{klen, kind, *range<int64_t>(0, 100000000)};
  });
}

// ------------------------------------------------------------------ block encryption
// Case: blk klen kind seed inplace nblocks bkind bseed [#explicit key]
static rc::Gen<Case> gen_block(int) {
  return rc::gen::exec([]() {
    auto ks = *gen_keyspec();
    std::string b;
    if (*range<int>(0, 5) == 0) {
      ks[1] = 4;
      b = *bytes((size_t)ks[0]);
    }
    int64_t bkind = *rc::gen::weightedElement<int64_t>({{8, 0}, {1, 1}, {1, 2}, {2, 3}});
    Case c;
    // fourth field: bit 0 in == out; otherwise (field >> 1) - 16 in -15..15 is the distance out - in of PARTIALLY overlapping blocks (0: separate)
    c.push_back(Op("blk", {ks[0], ks[1], ks[2], *rc::gen::weightedOneOf<int>({{2, rc::gen::just(0)}, {2, rc::gen::just(1)}, {1, rc::gen::map(range<int>(1, 31), [](int v) { return v << 1; })}}), *range<int>(1, 4), bkind, *range<int64_t>(0, 100000000)}, b));
    return c;
  });
}
static Outcome run_block(const Case &c) {
  Outcome o;
  if (c.empty() || c[0].a.size() < 7) return o;
  const auto &a = c[0].a;
  std::string key = make_key(a[0], a[1], a[2], c[0].b);
  bool inplace = a[3] & 1;
  int nb = (int)std::max<int64_t>(1, std::min<int64_t>(a[4], 8));
  RefKey rk = ref_expand(key);
  uint8_t *kb = exact(key.data(), key.size());
  void *lk = c02_key_expand(kb, key.size());
  free(kb);  // the expanded key must not depend on the caller's buffer
  if (!lk) {
    o.fail("key-expand-null", "crypto_aes_key_expand returned NULL");
    return o;
  }
  o.cls(key.size() == 16 ? "aes128" : "aes256");
  o.cls(inplace ? "in==out" : "separate-buffers");
  int kk = (int)(((a[1] % 5) + 5) % 5);
  o.cls(kk == 1 ? "key:zero" : kk == 2 ? "key:ff" : kk == 3 ? "key:single-bit" : kk == 4 ? "key:explicit" : "key:random");
  o.nontrivial = true;
  for (int i = 0; i < nb && o.ok; i++) {
    std::string pt;
    int bk = (int)(((a[5] % 4) + 4) % 4);
    if (bk == 1)
      pt = std::string(16, '\0');
    else if (bk == 2)
      pt = std::string(16, '\xff');
    else if (bk == 3) {
      pt = std::string(16, '\0');
      uint64_t bit = ((uint64_t)a[6] + 37 * i) % 128;
      pt[bit / 8] = (char)(1 << (bit % 8));
    } else
      pt = prbytes((uint64_t)a[6] + i, 16);
    uint8_t want[16];
    ref_encrypt(rk, (const uint8_t *)pt.data(), want);
    int dist = inplace ? 0 : (int)((a[3] >> 1) & 31) - 16;  // "${in} and ${out} can overlap" (crypto_aes.h)
    if (dist == -16) dist = 0;
    uint8_t *span = nullptr, *in, *out;
    if (dist != 0) {
      size_t ad = (size_t)(dist < 0 ? -dist : dist);
      span = (uint8_t *)malloc(16 + ad);
      in = dist > 0 ? span : span + ad;
      out = dist > 0 ? span + ad : span;
      memcpy(in, pt.data(), 16);
      o.cls("in and out overlap partially");
    } else {
      in = exact(pt.data(), 16);
      out = inplace ? in : (uint8_t *)malloc(16);
    }
    c02_encrypt_block(in, out, lk);
    if (memcmp(out, want, 16) != 0)
      o.fail(key.size() == 16 ? "block-aes128" : "block-aes256",
             "crypto_aes_encrypt_block(key " + hex(key) + ", block " + hex(pt) + ") = " + hex(std::string((char *)out, 16)) + ", FIPS-197 gives " +
                 hex(std::string((char *)want, 16)));
    else if (!inplace && dist == 0 && memcmp(in, pt.data(), 16) != 0)
      o.fail("block-input-modified", "crypto_aes_encrypt_block modified its input buffer");
    if (span)
      free(span);
    else {
      if (!inplace) free(out);
      free(in);
    }
  }
  c02_key_free(lk);
  return o;
}

// ------------------------------------------------------------------ CTR streams
// Case ops:
//   key klen kind seed [#bytes]          defines key #i (i = number of key ops before it)
//   init keyidx nonce how                how 0: crypto_aesctr_init (new object)   1: alloc + init2 (new object)
//                                            2: init2 on the current object, key pointer given   3: init2, key = NULL (retain)
//   s len inplace seed                   one crypto_aesctr_stream call
//   buf keyidx nonce len inplace seed    one crypto_aesctr_buf call (independent of the stream object)
static const int64_t MIB = 1 << 20;
static const int64_t MAXSEG = MIB + (MIB / 4);

struct Plan {
  std::vector<int64_t> calls;
};
// calls for one stream segment; focus = byte position of interest (0, a 256-block or the 65536-block carry)
static Plan gen_segment(int64_t focus) {
  Plan p;
  int64_t pos = 0;
  auto add = [&](int64_t n) {
    n = std::max<int64_t>(0, std::min<int64_t>(n, MAXSEG - pos));
    p.calls.push_back(n);
    pos += n;
  };
  if (focus > 0) {
    int64_t back = *rc::gen::weightedOneOf<int64_t>({{6, range<int64_t>(0, 40)}, {2, rc::gen::map(range<int64_t>(0, 20), [](int64_t m) { return 16 * m; })},
                                                    {1, range<int64_t>(41, 600)}});
    int64_t target = std::max<int64_t>(0, focus - back);
    int how = *rc::gen::weightedElement<int>({{4, 0}, {3, 1}, {3, 2}});
    if (how == 0)
      add(target);  // one huge call
    else if (how == 1) {  // unaligned start: the bulk path runs behind a head
      add(*range<int>(1, 15));
      add(target - pos);
    } else {
      int k = *range<int>(2, 4);
      for (int i = 0; i < k - 1 && pos < target; i++) {
        int64_t n = *range<int64_t>(0, target - pos);
        if (*range<int>(0, 1)) n &= ~(int64_t)15;
        add(n);
      }
      add(target - pos);
    }
  }
  int n = *rc::gen::weightedOneOf<int>({{1, rc::gen::just(0)}, {8, range<int>(1, 8)}, {1, range<int>(9, 30)}});
  for (int i = 0; i < n; i++) {
    int64_t d = focus - pos;  // distance to the boundary of interest (may be <= 0)
    int64_t b = 16 - pos % 16;  // distance to the next block boundary
    int w = *rc::gen::weightedElement<int>({{2, 0}, {6, 1}, {2, 2}, {4, 3}, {3, 4}, {3, 5}, {3, 6}, {2, 7}, {2, 8}, {1, 9}});
    switch (w) {
    case 0: add(0); break;
    case 1: add(*range<int>(1, 15)); break;
    case 2: add(16); break;
    case 3: add(*range<int>(17, 64)); break;
    case 4: add(d > 0 ? d : b); break;                                // ends exactly on the boundary
    case 5: add((d > 0 ? d : b % 16) + *range<int>(1, 15)); break;    // ends inside the block after it: tail generates that block
    case 6: add((d > 0 ? d : b % 16) + 16 + *range<int>(0, 17)); break;
    case 7: add(b + 16 * *range<int>(0, 3)); break;                   // head + whole blocks, no tail
    case 8: add(*range<int>(65, 700)); break;
    default: add(*range<int>(701, 70000)); break;
    }
  }
  return p;
}
static int64_t gen_focus(int tier, bool first) {
  (void)tier;
  int w = *rc::gen::weightedElement<int>({{(size_t)(first ? 20 : 26), 0}, {14, 1}, {(size_t)(first ? 2 : 1), 2}, {2, 3}});
  switch (w) {
  case 0: return 0;
  case 1: return 4096 * *rc::gen::weightedElement<int64_t>({{6, 1}, {2, 2}, {1, 3}, {1, 16}, {1, 17}});
  case 2: return MIB;  // ~5% of first segments: >= 1 MiB streams are the expensive ones (65536 reference blocks)
  default: return *range<int>(0, 3) ? *range<int64_t>(5000, 70000) : *range<int64_t>(70000, MIB + 200000);
  }
}
static rc::Gen<Case> gen_ctr(int tier) {
  return rc::gen::exec([tier]() {
    Case c;
    int nkeys = *rc::gen::weightedElement<int>({{6, 1}, {4, 2}});
    for (int i = 0; i < nkeys; i++) {
      auto ks = *gen_keyspec();
      c.push_back(Op("key", ks));
    }
    auto data_seed = []() -> int64_t { return *rc::gen::weightedOneOf<int64_t>({{1, rc::gen::just<int64_t>(0)}, {1, rc::gen::just<int64_t>(1)}, {10, range<int64_t>(2, 100000000)}}); };
    auto add_buf = [&]() {
      int64_t len = *rc::gen::weightedOneOf<int64_t>({{6, range<int64_t>(0, 64)}, {3, range<int64_t>(4096 - 40, 4096 + 40)}, {3, range<int64_t>(65, 9000)},
                                                     {1, range<int64_t>(MIB - 40, MIB + 40)}});
      if (len > 100000 && *range<int>(0, 3) != 0) len = *range<int64_t>(0, 64);
      c.push_back(Op("buf", {*range<int>(0, nkeys - 1), *gen_nonce(), len, *range<int>(0, 1), data_seed()}));
    };
    if (*range<int>(0, 7) == 0) add_buf();
    int nseg = *rc::gen::weightedElement<int>({{6, 1}, {4, 2}, {1, 3}, {1, 4}});
    int64_t prev_nonce = 0;
    bool misalign = *range<int>(0, 1);  // half of the cases place their buffers at generated offsets 0..15
    for (int s = 0; s < nseg; s++) {
      int how = s == 0 ? *range<int>(0, 1) : *rc::gen::weightedElement<int>({{1, 0}, {1, 1}, {4, 2}, {4, 3}});
      // a re-initialisation often keeps the nonce (new key, same nonce; or a plain restart of the same keystream)
      int64_t nonce = (s > 0 && *range<int>(0, 2) == 0) ? prev_nonce : *gen_nonce();
      prev_nonce = nonce;
      c.push_back(Op("init", {*range<int>(0, nkeys - 1), nonce, how}));
      // sometimes a stream is initialised and never used (or only asked for 0 bytes) before it is initialised again
      int unused = (s + 1 < nseg) ? *rc::gen::weightedElement<int>({{8, 0}, {1, 1}, {1, 2}}) : 0;
      if (unused == 1) continue;
      if (unused == 2) {
        c.push_back(Op("s", {0, 0, data_seed()}));
        continue;
      }
      Plan p = gen_segment(gen_focus(tier, s == 0));
      int ip = *rc::gen::weightedElement<int>({{1, 0}, {1, 1}, {2, 2}});  // never / always / per call
      for (int64_t n : p.calls)
        // bits 1-2 of the second field: separate buffers that TOUCH (one allocation: out == in + len, or in == out + len) -- not an overlap
        c.push_back(Op("s", {n, (ip == 2 ? *range<int>(0, 1) : ip) | (*rc::gen::weightedElement<int>({{5, 0}, {1, 1}, {1, 2}}) << 1), data_seed(), misalign ? *rc::gen::weightedElement<int>({{4, 0}, {1, 1}, {1, 8}, {1, 15}, {1, 5}}) : 0,
                             misalign ? *rc::gen::weightedElement<int>({{4, 0}, {1, 1}, {1, 8}, {1, 15}, {1, 11}}) : 0}));
    }
    if (*range<int>(0, 4) == 0) add_buf();
    return c;
  });
}

struct CtrModel {  // what the stream object should be doing
  bool live = false;
  int keyidx = -1;
  uint64_t nonce = 0;
  uint64_t pos = 0;
  std::string in, out;  // segment input / library output (for the round trip)
};

static std::string first_diff(const uint8_t *got, const uint8_t *want, size_t n, uint64_t base) {
  size_t i = 0;
  while (i < n && got[i] == want[i]) i++;
  size_t m = std::min<size_t>(8, n - i);
  return "first wrong byte at stream position " + std::to_string(base + i) + " (block " + std::to_string((base + i) / 16) + ", offset " +
         std::to_string((base + i) % 16) + "): got " + hex(std::string((const char *)got + i, m)) + " expected " +
         hex(std::string((const char *)want + i, m));
}

static Outcome run_ctr(const Case &c) {
  Outcome o;
  std::vector<std::string> keys;
  std::vector<void *> lkeys;
  for (const Op &op : c)
    if (op.k == "key" && op.a.size() >= 3 && keys.size() < 8) keys.push_back(make_key(op.a[0], op.a[1], op.a[2], op.b));
  if (keys.empty()) return o;
  for (auto &k : keys) {
    uint8_t *kb = exact(k.data(), k.size());
    lkeys.push_back(c02_key_expand(kb, k.size()));
    free(kb);
    if (!lkeys.back()) harness_error("crypto_aes_key_expand returned NULL");
  }
  void *stream = nullptr;
  CtrModel m;
  int ncalls = 0, nstraddle = 0;
  bool carried = false;
  int64_t budget = 3 * MIB;  // total bytes per case (cost bound)
  std::string calls_txt;

  auto finish_segment = [&]() {
    // stream(stream(x)) == x: decrypt the library's output with a fresh stream, cut differently
    if (!m.live || m.in.empty() || !o.ok) return;
    size_t n = m.out.size(), cut = n / 3 + (n > 40 ? 7 : 0);
    uint8_t *buf = exact(m.out.data(), n);
    void *s2 = c02_ctr_init(lkeys[m.keyidx], m.nonce);
    if (!s2) harness_error("crypto_aesctr_init returned NULL");
    c02_ctr_stream(s2, buf, buf, cut);
    c02_ctr_stream(s2, buf + cut, buf + cut, n - cut);
    c02_ctr_free(s2);
    if (memcmp(buf, m.in.data(), n) != 0)
      o.fail("ctr-roundtrip", "decrypting the stream output with a fresh stream (calls " + std::to_string(cut) + "," + std::to_string(n - cut) +
                                  ") does not restore the input: " + first_diff(buf, (const uint8_t *)m.in.data(), n, 0));
    free(buf);
  };
  auto carry_classes = [&](uint64_t a, uint64_t b) {  // call covers [a, b)
    for (uint64_t P = ((a + 4095) / 4096) * 4096; P < b; P += 4096) {
      if (P == 0) continue;
      carried = true;
      std::string nm = (P % (16 * 65536) == 0) ? "carry65536:" : "carry256:";
      if (P + 16 <= b) {
        uint64_t a16 = (a + 15) / 16 * 16, b16 = b / 16 * 16;
        o.cls(nm + (P == a16 ? "bulk-first-block" : P + 16 == b16 ? "bulk-last-block" : "bulk-middle"));
        if (a % 16) o.cls(nm + "bulk-after-head");
      } else
        o.cls(nm + (a == P ? "tail-generate(call starts at boundary)" : a % 16 ? "tail-generate(after head)" : "tail-generate(after whole blocks)"));
    }
    // the block *before* a carry written back by the bulk path and continued by a tail
    if (b % 4096 == 0 && b > a && b - a >= 16 && b > 0) o.cls((b % (16 * 65536) == 0) ? "call-ends-at-carry65536" : "call-ends-at-carry256");
  };

  for (const Op &op : c) {
    if (!o.ok) break;
    if (op.k == "init" && op.a.size() >= 3) {
      int ki = (int)(((op.a[0] % (int64_t)keys.size()) + keys.size()) % keys.size());
      uint64_t nonce = (uint64_t)op.a[1];
      int how = (int)(((op.a[2] % 4) + 4) % 4);
      if (!stream && how >= 2) how = 1;  // nothing to re-initialise yet
      finish_segment();
      if (how == 0) {
        if (stream) c02_ctr_free(stream);
        stream = c02_ctr_init(lkeys[ki], nonce);
        o.cls("init:crypto_aesctr_init");
      } else if (how == 1) {
        if (stream) c02_ctr_free(stream);
        stream = c02_ctr_alloc();
        if (stream) c02_ctr_init2(stream, lkeys[ki], nonce);
        o.cls("init:alloc+init2");
      } else if (how == 2) {
        c02_ctr_init2(stream, lkeys[ki], nonce);
        o.cls(ki == m.keyidx ? "reinit:init2-same-key-pointer" : "reinit:init2-new-key");
        if (ki != m.keyidx && nonce == m.nonce) o.cls(m.pos == 0 ? "reinit:new-key-same-nonce-stream-unused" : "reinit:new-key-same-nonce");
        o.cls(m.pos % 16 ? "reinit:mid-block" : "reinit:at-block-boundary");
      } else {
        ki = m.keyidx;
        c02_ctr_init2(stream, nullptr, nonce);
        o.cls("reinit:init2-NULL-key(retain)");
        o.cls(m.pos % 16 ? "reinit:mid-block" : "reinit:at-block-boundary");
      }
      if (!stream) harness_error("crypto_aesctr_init/alloc returned NULL");
      m.live = true;
      m.keyidx = ki;
      m.nonce = nonce;
      m.pos = 0;
      m.in.clear();
      m.out.clear();
      o.cls(nonce_class(nonce));
      o.cls(keys[ki].size() == 16 ? "aes128" : "aes256");
      calls_txt += " | init(key" + std::to_string(ki) + "," + std::to_string(nonce) + ")";
    } else if (op.k == "s" && op.a.size() >= 3 && m.live) {
      int64_t len = std::max<int64_t>(0, std::min<int64_t>(op.a[0], MAXSEG));
      if ((int64_t)m.pos + len > MAXSEG) len = MAXSEG - (int64_t)m.pos;
      if (len > budget) len = budget;
      budget -= len;
      bool inplace = op.a[1] & 1;
      std::string data = make_data(op.a[2], (size_t)len);
      RefStream &rs = ref_stream(keys[m.keyidx], m.nonce);
      rs.need(m.pos + (size_t)len);
      std::string want((size_t)len, 0);
      for (size_t i = 0; i < (size_t)len; i++) want[i] = (char)(data[i] ^ rs.ks[m.pos + i]);
      // buffers at generated offsets 0..15 from an allocation (so in and out may be aligned differently); each ends where its block ends
      size_t ioff = op.a.size() > 3 ? (size_t)(op.a[3] & 15) : 0, ooff = op.a.size() > 4 ? (size_t)(op.a[4] & 15) : 0;
      int touch = inplace ? 0 : (int)((op.a[1] >> 1) & 3) % 3;
      uint8_t *in_blk = (uint8_t *)malloc(ioff + (size_t)len * (touch ? 2 : 1));
      if (!in_blk) harness_error("malloc");
      uint8_t *in = in_blk + ioff + (touch == 2 ? (size_t)len : 0);
      if (len) memcpy(in, data.data(), (size_t)len);
      uint8_t *out_blk = inplace || touch ? in_blk : (uint8_t *)malloc(ooff + (size_t)len);
      if (!out_blk) harness_error("malloc");
      uint8_t *out = inplace ? in : touch == 1 ? in + len : touch == 2 ? in_blk + ioff : out_blk + ooff;
      if (touch && len) o.cls(touch == 1 ? "buffers touch: out == in + len" : "buffers touch: in == out + len");
      if (!inplace && len) memset(out, 0xCC, (size_t)len);
      if (len >= 16 && !inplace && ((uintptr_t)in & 15) != ((uintptr_t)out & 15)) o.cls(((uintptr_t)out & 15) == 0 ? "buffers:out-aligned-in-not" : ((uintptr_t)in & 15) == 0 ? "buffers:in-aligned-out-not" : "buffers:differently-misaligned");
      c02_ctr_stream(stream, in, out, (size_t)len);
      ncalls++;
      if (ncalls <= 24) calls_txt += " " + std::to_string(len) + (inplace ? "i" : "");
      uint64_t a = m.pos, b = m.pos + (uint64_t)len;
      if (len > 0 && a / 16 != (b - 1) / 16 && (a % 16 || b % 16)) nstraddle++;
      o.cls(len == 0 ? "call:0" : len < 16 ? (a % 16 + len <= 16 ? "call:1-15(within block)" : "call:1-15(straddles)")
            : len == 16 ? (a % 16 ? "call:16(unaligned)" : "call:16(aligned)") : len < 4096 ? "call:17-4095" : len < MIB ? "call:4096-1MiB" : "call:>=1MiB");
      if (len >= 16) {
        bool head = a % 16, tail = b % 16, whole = (b / 16 * 16) > ((a + 15) / 16 * 16);
        o.cls(std::string("call>=16:") + (head ? "head+" : "") + (whole ? "whole" : "nowhole") + (tail ? "+tail" : ""));
      }
      o.cls(inplace ? "in-place" : "separate-buffers");
      carry_classes(a, b);
      if (memcmp(out, want.data(), (size_t)len) != 0)
        o.fail("ctr-stream", "crypto_aesctr_stream call #" + std::to_string(ncalls) + " (" + std::to_string(len) + " bytes at stream position " +
                                 std::to_string(a) + (inplace ? ", in place" : "") + "; history:" + calls_txt + "): " +
                                 first_diff(out, (const uint8_t *)want.data(), (size_t)len, a));
      else if (!inplace && memcmp(in, data.data(), (size_t)len) != 0)
        o.fail("ctr-input-modified", "crypto_aesctr_stream modified its input buffer (separate output buffer given)");
      m.in += data;
      m.out.append((const char *)out, (size_t)len);
      m.pos = b;
      if (!inplace && !touch) free(out_blk);
      free(in_blk);
    } else if (op.k == "buf" && op.a.size() >= 5) {
      int ki = (int)(((op.a[0] % (int64_t)keys.size()) + keys.size()) % keys.size());
      uint64_t nonce = (uint64_t)op.a[1];
      int64_t len = std::max<int64_t>(0, std::min<int64_t>(op.a[2], MAXSEG));
      if (len > budget) len = budget;
      budget -= len;
      bool inplace = op.a[3] & 1;
      std::string data = make_data(op.a[4], (size_t)len);
      RefStream &rs = ref_stream(keys[ki], nonce);
      rs.need((size_t)len);
      std::string want((size_t)len, 0);
      for (size_t i = 0; i < (size_t)len; i++) want[i] = (char)(data[i] ^ rs.ks[i]);
      uint8_t *in = exact(data.data(), (size_t)len);
      uint8_t *out = inplace ? in : (uint8_t *)malloc((size_t)len);
      if (!out) harness_error("malloc");
      c02_ctr_buf(lkeys[ki], nonce, in, out, (size_t)len);
      o.cls(len == 0 ? "buf:0" : len <= 64 ? "buf:1-64" : len < 4096 ? "buf:65-4095" : len < MIB ? "buf:4096-1MiB" : "buf:>=1MiB");
      o.cls(nonce_class(nonce));
      if (len > 4096) carried = true;
      if (memcmp(out, want.data(), (size_t)len) != 0)
        o.fail("ctr-buf", "crypto_aesctr_buf(" + std::to_string(len) + " bytes, nonce " + std::to_string(nonce) + (inplace ? ", in place" : "") + "): " +
                              first_diff(out, (const uint8_t *)want.data(), (size_t)len, 0));
      if (!inplace) free(out);
      free(in);
    }
  }
  finish_segment();
  if (stream) c02_ctr_free(stream);
  for (void *k : lkeys) c02_key_free(k);
  o.cls(ncalls == 0 ? "calls:0" : ncalls <= 2 ? "calls:1-2" : ncalls <= 8 ? "calls:3-8" : "calls:>8");
  o.nontrivial = carried || (ncalls >= 3 && nstraddle >= 1);
  return o;
}

// ------------------------------------------------------------------ grid around the counter carries
// Case: grid which(0: block 256, 1: block 65536, 2: block 512) delta len1 len2 keysel inplace
// One call up to (carry position + delta), then calls of len1 and len2 bytes; delta in -33..16, len1/len2 in 0..48.
static rc::Gen<Case> gen_grid(int) {
  return rc::gen::exec([]() {
    int which = *rc::gen::weightedElement<int>({{12, 0}, {2, 1}, {3, 2}});
    Case c;
    c.push_back(Op("grid", {which, *range<int>(-33, 16), *range<int>(0, 48), *range<int>(0, 48), *range<int>(0, 3), *range<int>(0, 1)}));
    return c;
  });
}
// one grid point; returns a short description of how the carry block was produced
static std::string grid_one(Outcome &o, int which, int64_t delta, int64_t l1, int64_t l2, int ks, bool inplace) {
  int64_t P = which == 0 ? 4096 : which == 1 ? MIB : 8192;
  // four fixed (key, nonce) pairs so that the reference keystream is memoised across cases
  std::string key = prbytes(0xC02 + ks, ks & 1 ? 32 : 16);
  uint64_t nonce = ks == 0 ? 0 : ks == 1 ? UINT64_MAX : ks == 2 ? 0x00000000ffffffffULL : 0x0123456789abcdefULL;
  RefStream &rs = ref_stream(key, nonce);
  size_t total = (size_t)(P + delta + l1 + l2);
  rs.need(total);
  uint8_t *kb = exact(key.data(), key.size());
  void *lk = c02_key_expand(kb, key.size());
  free(kb);
  void *s = c02_ctr_init(lk, nonce);
  if (!lk || !s) harness_error("key expand / init returned NULL");
  int64_t lens[3] = {P + delta, l1, l2};
  uint64_t pos = 0;
  for (int i = 0; i < 3 && o.ok; i++) {
    size_t n = (size_t)lens[i];
    std::string data = i == 0 ? std::string() : prbytes(77 + i + (uint64_t)delta * 131 + (uint64_t)l1, n);
    uint8_t *in = (uint8_t *)malloc(n);
    if (!in) harness_error("malloc");
    if (i == 0)
      memset(in, 0, n);  // the long first call encrypts zeros: its output is the keystream itself
    else if (n)
      memcpy(in, data.data(), n);
    uint8_t *out = inplace ? in : (uint8_t *)malloc(n);
    c02_ctr_stream(s, in, out, n);
    bool same;
    if (i == 0)
      same = memcmp(out, rs.ks.data() + pos, n) == 0;
    else {
      size_t j = 0;
      while (j < n && (uint8_t)(data[j] ^ rs.ks[pos + j]) == out[j]) j++;
      same = j == n;
    }
    if (!same) {
      std::string want(n, 0);
      for (size_t q = 0; q < n; q++) want[q] = (char)((i == 0 ? 0 : data[q]) ^ rs.ks[pos + q]);
      o.fail("ctr-grid", "stream calls " + std::to_string(lens[0]) + "," + std::to_string(l1) + "," + std::to_string(l2) + " (carry at byte " +
                             std::to_string(P) + (inplace ? ", in place" : "") + "), call #" + std::to_string(i + 1) + ": " +
                             first_diff(out, (const uint8_t *)want.data(), n, pos));
    }
    if (!inplace) free(out);
    free(in);
    pos += n;
  }
  c02_ctr_free(s);
  c02_key_free(lk);
  int64_t st[4] = {0, P + delta, P + delta + l1, P + delta + l1 + l2};
  std::string how = "carry-not-reached";
  for (int i = 0; i < 3; i++)
    if (st[i] <= P && P < st[i + 1])
      how = "carry-block-by:call" + std::to_string(i + 1) + (P + 16 <= st[i + 1] ? ":bulk" : ":tail-generate") + (st[i] % 16 ? "(after head)" : "");
  return how;
}
static Outcome run_grid(const Case &c) {
  Outcome o;
  if (c.empty() || c[0].a.size() < 6) return o;
  const auto &a = c[0].a;
  int which = (int)(((a[0] % 3) + 3) % 3);
  int64_t P = which == 0 ? 4096 : which == 1 ? MIB : 8192;
  int64_t delta = std::max<int64_t>(-64, std::min<int64_t>(a[1], 64));
  int64_t l1 = std::max<int64_t>(0, std::min<int64_t>(a[2], 96)), l2 = std::max<int64_t>(0, std::min<int64_t>(a[3], 96));
  int ks = (int)(((a[4] % 4) + 4) % 4);
  std::string how = grid_one(o, which, delta, l1, l2, ks, a[5] & 1);
  o.cls(which == 0 ? "carry:block256" : which == 1 ? "carry:block65536" : "carry:block512");
  o.cls(how);
  char b[48];
  snprintf(b, sizeof b, "start%%16=%02d", (int)(((P + delta) % 16 + 16) % 16));
  o.cls(b);
  o.nontrivial = P + delta + l1 + l2 > P;
  return o;
}

// Case: sweep which keysel inplace seed -- ONE case enumerates every (delta in -33..16) x (len1 in 0..48) around the carry
// (2450 three-call streams); len2 is derived from the seed per grid point.
static rc::Gen<Case> gen_sweep(int tier) {
  return rc::gen::noShrink(rc::gen::exec([tier]() {
    int which = tier == 0 ? *rc::gen::weightedElement<int>({{5, 0}, {3, 2}, {1, 1}}) : *rc::gen::weightedElement<int>({{2, 0}, {2, 2}, {3, 1}});
    Case c;
    c.push_back(Op("sweep", {which, *range<int>(0, 3), *range<int>(0, 1), *range<int64_t>(0, 1000000)}));
    return c;
  }));
}
static Outcome run_sweep(const Case &c) {
  Outcome o;
  if (c.empty() || c[0].a.size() < 4) return o;
  const auto &a = c[0].a;
  int which = (int)(((a[0] % 3) + 3) % 3);
  int ks = (int)(((a[1] % 4) + 4) % 4);
  bool inplace = a[2] & 1;
  std::string r = prbytes((uint64_t)a[3], 50 * 49);
  uint64_t points = 0;
  for (int64_t delta = -33; delta <= 16 && o.ok; delta++)
    for (int64_t l1 = 0; l1 <= 48 && o.ok; l1++) {
      int64_t l2 = (uint8_t)r[(size_t)((delta + 33) * 49 + l1)] % 49;
      o.cls(grid_one(o, which, delta, l1, l2, ks, inplace));
      points++;
    }
  pbt::count("carrysweep:grid-points", points);
  o.cls(which == 0 ? "carry:block256" : which == 1 ? "carry:block65536" : "carry:block512");
  o.cls(std::string("keysel:") + std::to_string(ks) + (inplace ? ":in-place" : ":separate"));
  o.nontrivial = true;
  return o;
}

// ------------------------------------------------------------------ very long stream (carry into the 4th counter byte)
// Case: huge log2blocks delta len1 len2 keysel seed.  One in-place call of (2^log2blocks * 16 + delta) zero bytes (so the
// output is the keystream), then calls of len1 and len2.  The bulk is compared with OpenSSL EVP ECB over the counter blocks
// (fast), AND the harness's own FIPS-197 reference judges: the first/last 4 blocks, every block with index = -1,0,1 mod 65536,
// the 6 blocks around 2^log2blocks, 64 pseudo-random blocks, and every byte of the two short calls.
static rc::Gen<Case> gen_huge(int tier) {
  return rc::gen::noShrink(rc::gen::exec([tier]() {  // evaluations are expensive: no shrinking
    int lg = tier == 0 ? *rc::gen::element(16, 18, 19, 20) : *rc::gen::weightedElement<int>({{4, 24}, {1, 20}, {1, 22}, {1, 23}});
    Case c;
    c.push_back(Op("huge", {lg, *range<int>(-33, 16), *range<int>(0, 48), *range<int>(0, 48), *range<int>(0, 3), *range<int64_t>(0, 1000000)}));
    return c;
  }));
}
static Outcome run_huge(const Case &c) {
  Outcome o;
  if (c.empty() || c[0].a.size() < 6) return o;
  const auto &a = c[0].a;
  int lg = (int)std::max<int64_t>(9, std::min<int64_t>(a[0], 24));
  int64_t P = ((int64_t)16) << lg;
  int64_t delta = std::max<int64_t>(-64, std::min<int64_t>(a[1], 64));
  size_t l1 = (size_t)std::max<int64_t>(0, std::min<int64_t>(a[2], 96)), l2 = (size_t)std::max<int64_t>(0, std::min<int64_t>(a[3], 96));
  int ks = (int)(((a[4] % 4) + 4) % 4);
  std::string key = prbytes(0xB16 + ks, ks & 1 ? 32 : 16);
  uint64_t nonce = ks == 0 ? 0 : ks == 1 ? UINT64_MAX : ks == 2 ? 0xff00000000000000ULL : 0x0123456789abcdefULL;
  RefKey rk = ref_expand(key);
  size_t n0 = (size_t)(P + delta);
  uint8_t *kb = exact(key.data(), key.size());
  void *lk = c02_key_expand(kb, key.size());
  free(kb);
  void *s = c02_ctr_init(lk, nonce);
  if (!lk || !s) harness_error("key expand / init returned NULL");
  uint8_t *buf = (uint8_t *)malloc(n0);
  if (!buf) harness_error("malloc of the long buffer failed");
  memset(buf, 0, n0);
  c02_ctr_stream(s, buf, buf, n0);
  auto ref_block = [&](uint64_t idx, uint8_t out[16]) {
    uint8_t ctr[16];
    for (int i = 0; i < 8; i++) ctr[i] = (uint8_t)(nonce >> (56 - 8 * i));
    for (int i = 0; i < 8; i++) ctr[8 + i] = (uint8_t)(idx >> (56 - 8 * i));
    ref_encrypt(rk, ctr, out);
  };
  uint64_t nblk = (n0 + 15) / 16, judged = 0;
  auto judge = [&](uint64_t idx) {
    if (idx >= nblk || !o.ok) return;
    uint8_t w[16];
    ref_block(idx, w);
    size_t n = std::min<size_t>(16, n0 - idx * 16);
    judged++;
    if (memcmp(buf + idx * 16, w, n) != 0)
      o.fail("ctr-huge", "one call of " + std::to_string(n0) + " bytes: " + first_diff(buf + idx * 16, w, n, idx * 16));
  };
  for (uint64_t i = 0; i < 4; i++) judge(i), judge(nblk - 1 - i);
  for (uint64_t m = 65536; m <= nblk + 1; m += 65536) judge(m - 1), judge(m), judge(m + 1);
  for (uint64_t m = 256; m <= nblk && m <= 256 * 40; m += 256) judge(m - 1), judge(m);
  for (int64_t d = -3; d <= 2; d++) judge(((uint64_t)1 << lg) + d);
  {
    std::string r = prbytes((uint64_t)a[5], 8 * 64);
    for (int i = 0; i < 64; i++) {
      uint64_t v;
      memcpy(&v, r.data() + 8 * i, 8);
      judge(v % nblk);
    }
  }
  // bulk: OpenSSL over the counter blocks, 1 MiB at a time (second opinion only; see above for what the reference judged)
  if (o.ok) {
    std::string ctrs(1 << 20, 0);
    for (uint64_t b0 = 0; b0 < nblk && o.ok; b0 += 65536) {
      uint64_t nb = std::min<uint64_t>(65536, nblk - b0);
      for (uint64_t j = 0; j < nb; j++) {
        for (int i = 0; i < 8; i++) ctrs[16 * j + i] = (char)(nonce >> (56 - 8 * i));
        for (int i = 0; i < 8; i++) ctrs[16 * j + 8 + i] = (char)((b0 + j) >> (56 - 8 * i));
      }
      std::string ksb = ossl_ecb(key, ctrs.substr(0, 16 * nb));
      size_t n = std::min<size_t>(16 * nb, n0 - 16 * b0);
      if (memcmp(buf + 16 * b0, ksb.data(), n) != 0) {
        // locate and let the harness's reference decide
        size_t i = 0;
        while (i < n && buf[16 * b0 + i] == (uint8_t)ksb[i]) i++;
        uint64_t idx = b0 + i / 16;
        uint8_t w[16];
        ref_block(idx, w);
        if (memcmp(w, ksb.data() + (i / 16) * 16, 16) != 0) harness_error("OpenSSL and the FIPS-197 reference disagree on a counter block");
        judge(idx);
      }
    }
  }
  free(buf);
  // two short calls after the long one
  uint64_t pos = n0;
  size_t lens[2] = {l1, l2};
  for (int i = 0; i < 2 && o.ok; i++) {
    size_t n = lens[i];
    std::string data = prbytes(99 + i + (uint64_t)a[5], n), want(n, 0);
    for (size_t q = 0; q < n; q++) {
      uint8_t w[16];
      ref_block((pos + q) / 16, w);
      want[q] = (char)(data[q] ^ w[(pos + q) % 16]);
    }
    uint8_t *in = exact(data.data(), n);
    uint8_t *out = (uint8_t *)malloc(n);
    c02_ctr_stream(s, in, out, n);
    if (memcmp(out, want.data(), n) != 0)
      o.fail("ctr-huge-tail", "after one call of " + std::to_string(n0) + " bytes, call of " + std::to_string(n) + " bytes at position " +
                                  std::to_string(pos) + ": " + first_diff(out, (const uint8_t *)want.data(), n, pos));
    free(out);
    free(in);
    pos += n;
  }
  c02_ctr_free(s);
  c02_key_free(lk);
  o.cls("blocks:2^" + std::to_string(lg));
  o.cls(delta > 0 ? "long-call-covers-2^k-carry" : (int64_t)(l1 + l2) + delta > 0 ? "short-call-covers-2^k-carry" : "2^k-carry-not-reached");
  pbt::count("huge:blocks-judged-by-own-reference", judged);
  o.nontrivial = true;
  return o;
}

// ------------------------------------------------------------------ far stream positions (byte position past 2^32, 2^33)
// Case: far k delta len1 len2 keysel seed chunklog.  The stream is driven to byte position k * 2^32 + delta by in-place calls on a zero
// buffer of 2^chunklog bytes (output = keystream; the first and last two blocks of every call are judged by the harness's reference),
// then calls of len1 and len2 bytes are judged byte by byte.
static rc::Gen<Case> gen_far(int tier) {
  return rc::gen::noShrink(rc::gen::exec([tier]() {
    Case c;
    int kk = tier ? *rc::gen::weightedElement<int>({{3, 1}, {2, 2}, {1, 16}}) : 1;
    c.push_back(Op("far", {kk, *range<int>(-40, 40), *range<int>(0, 96), *range<int>(0, 96), *range<int>(0, 3), *range<int64_t>(0, 1000000), *range<int>(24, 27), kk == 16 ? 0 : 2}));  // 64 GiB are only walked once (about two minutes)
    return c;
  }));
}
// 64 GiB (block index 2^32), always: the stream stops 1..40 bytes short of it and a call of 64..96 bytes crosses it; in half of the cases
// the first call of the walk is shortened so that the big calls do not end on multiples of their size and one of them straddles 2^36 - 2^k
static rc::Gen<Case> gen_far64(int) {
  return rc::gen::noShrink(rc::gen::exec([]() {
    Case c;
    c.push_back(Op("far", {16, *range<int>(-40, -1), *range<int>(64, 96), *range<int>(0, 96), *range<int>(0, 3), *range<int64_t>(0, 1000000), *range<int>(24, 27), 0,
                           *range<int>(0, 1) ? 16 * *range<int>(1, 60000) : 0}));
    return c;
  }));
}
static Outcome run_far1(const Case &c, int forced_mode);
static Outcome run_far(const Case &c) {
  if (!c.empty() && c[0].a.size() > 7 && c[0].a[7] == 2) {  // both ways of getting there, one after the other
    Outcome o1 = run_far1(c, 0);
    if (!o1.ok) return o1;
    Outcome o2 = run_far1(c, 1);
    for (auto &cl : o1.classes) o2.cls(cl);
    return o2;
  }
  return run_far1(c, -1);
}
static Outcome run_far1(const Case &c, int forced_mode) {
  Outcome o;
  if (c.empty() || c[0].a.size() < 7) return o;
  const auto &a = c[0].a;
  uint64_t k = (uint64_t)std::max<int64_t>(1, std::min<int64_t>(a[0], 16));  // 16 * 2^32 bytes = 2^32 blocks
  int64_t delta = std::max<int64_t>(-64, std::min<int64_t>(a[1], 64));
  size_t l1 = (size_t)std::max<int64_t>(0, std::min<int64_t>(a[2], 96)), l2 = (size_t)std::max<int64_t>(0, std::min<int64_t>(a[3], 96));
  int ks = (int)(((a[4] % 4) + 4) % 4);
  size_t chunk = (size_t)1 << std::max<int64_t>(20, std::min<int64_t>(a[6], 28));
  std::string key = prbytes(0xFA2 + ks, ks & 1 ? 32 : 16);
  uint64_t nonce = ks == 0 ? 0 : ks == 1 ? UINT64_MAX : ks == 2 ? 0xff00000000000000ULL : 0x0123456789abcdefULL;
  RefKey rk = ref_expand(key);
  uint8_t *kb = exact(key.data(), key.size());
  void *lk = c02_key_expand(kb, key.size());
  free(kb);
  void *s = c02_ctr_init(lk, nonce);
  if (!lk || !s) harness_error("key expand / init returned NULL");
  auto ref_block = [&](uint64_t idx, uint8_t out[16]) {
    uint8_t ctr[16];
    for (int i = 0; i < 8; i++) ctr[i] = (uint8_t)(nonce >> (56 - 8 * i));
    for (int i = 0; i < 8; i++) ctr[8 + i] = (uint8_t)(idx >> (56 - 8 * i));
    ref_encrypt(rk, ctr, out);
  };
  uint64_t target = (k << 32) + (uint64_t)delta, pos = 0, judged = 0;
  bool displaced = a.size() > 8 && a[8] > 0;
  if (displaced) target += chunk;  // the walk goes on past k * 2^32, so that one of the big calls straddles it
  bool giant = forced_mode >= 0 ? forced_mode == 1 : (a.size() > 7 && (a[7] & 1));
  if (giant) {
    // ONE call of `target` bytes: the input is an untouched anonymous mapping (zeros), the output is a 2 MiB memfd mapped over and over
    // into one contiguous region (so 4 GiB of output need 2 MiB of memory); what is left in the window afterwards is the end of the stream
    const size_t WIN = (size_t)2 << 20;
    size_t total = (size_t)target, nwin = (total + WIN - 1) / WIN;
    uint8_t *in = (uint8_t *)mmap(nullptr, total, PROT_READ, MAP_PRIVATE | MAP_ANONYMOUS | MAP_NORESERVE, -1, 0);
    uint8_t *out = (uint8_t *)mmap(nullptr, nwin * WIN, PROT_NONE, MAP_PRIVATE | MAP_ANONYMOUS | MAP_NORESERVE, -1, 0);
    int mfd = memfd_create("c02-window", 0);
    if (in == MAP_FAILED || out == MAP_FAILED || mfd < 0 || ftruncate(mfd, (off_t)WIN) != 0) harness_error("cannot set up the 4 GiB mappings");
    for (size_t w = 0; w < nwin; w++)
      if (mmap(out + w * WIN, WIN, PROT_READ | PROT_WRITE, MAP_SHARED | MAP_FIXED, mfd, 0) == MAP_FAILED) harness_error("mmap of an output window failed");
    c02_ctr_stream(s, in, out, total);
    // the last window holds stream positions [lastbase, total) at its start; behind that, the tail of the window before it
    size_t lastbase = (nwin - 1) * WIN, have = total - lastbase;
    auto judge_at = [&](uint64_t p0) {  // p0: a stream position (multiple of 16) whose block is still visible in the window
      if (!o.ok || p0 + 16 > total) return;
      size_t woff = (size_t)(p0 % WIN);
      bool visible = p0 >= lastbase ? woff + 16 <= have : (p0 >= lastbase - WIN && woff >= have);
      if (!visible) return;
      uint8_t w[16];
      ref_block(p0 / 16, w);
      judged++;
      if (memcmp(out + woff, w, 16) != 0) o.fail("ctr-giant-call", "ONE call of " + std::to_string(total) + " zero bytes: " + first_diff(out + woff, w, 16, p0));
    };
    for (uint64_t b = 0; b < 64; b++) judge_at(lastbase + 16 * b), judge_at((total / 16 - 1 - b) * 16), judge_at(lastbase - 16 * (b + 1));
    if (total % 16) {  // the final partial block
      uint8_t w[16];
      ref_block(total / 16, w);
      size_t woff = (size_t)((total / 16 * 16) % WIN);
      if (o.ok && memcmp(out + woff, w, total % 16) != 0) o.fail("ctr-giant-call", "ONE call of " + std::to_string(total) + " zero bytes: last partial block wrong");
    }
    munmap(in, total);
    munmap(out, nwin * WIN);
    close(mfd);
    pos = total;
    o.cls("one-call-of->=2^32-bytes");
  }
  uint8_t *buf = (uint8_t *)malloc(chunk);
  if (!buf) harness_error("malloc of the chunk buffer failed");
  while (pos < target && o.ok) {
    size_t n = (size_t)std::min<uint64_t>(chunk, target - pos);
    if (pos == 0 && displaced && (uint64_t)a[8] < n) n = (size_t)(a[8] / 16 * 16), o.cls("walk-displaced(big calls straddle powers of two)");
    memset(buf, 0, n);
    c02_ctr_stream(s, buf, buf, n);
    // judge the blocks at both ends of this call (positions are multiples of 16 except possibly at the very end)
    for (int e = 0; e < 4 && o.ok; e++) {
      uint64_t off = e < 2 ? (uint64_t)e * 16 : (n >= 32 ? n - (uint64_t)(e - 1) * 16 : 0);
      if (off + 16 > n) continue;
      uint64_t p0 = pos + off;
      if (p0 % 16) continue;
      uint8_t w[16];
      ref_block(p0 / 16, w);
      judged++;
      if (memcmp(buf + off, w, 16) != 0)
        o.fail("ctr-far", "call of " + std::to_string(n) + " zero bytes at stream position " + std::to_string(pos) + ": " + first_diff(buf + off, w, 16, p0));
    }
    // a call that straddles k * 2^32: the blocks on both sides of it
    uint64_t B = k << 32;
    if (pos % 16 == 0 && pos + 32 <= B && B + 32 <= pos + n) {
      o.cls("one big call straddles k*2^32");
      for (int e = -2; e < 2 && o.ok; e++) {
        uint64_t p0 = B + (uint64_t)(int64_t)(e * 16);
        uint8_t w[16];
        ref_block(p0 / 16, w);
        judged++;
        if (memcmp(buf + (p0 - pos), w, 16) != 0)
          o.fail("ctr-far", "call of " + std::to_string(n) + " zero bytes at stream position " + std::to_string(pos) + ": " + first_diff(buf + (p0 - pos), w, 16, p0));
      }
    }
    pos += n;
  }
  free(buf);
  size_t lens[2] = {l1, l2};
  for (int i = 0; i < 2 && o.ok; i++) {
    size_t n = lens[i];
    std::string data = prbytes(199 + i + (uint64_t)a[5], n), want(n, 0);
    for (size_t q = 0; q < n; q++) {
      uint8_t w[16];
      ref_block((pos + q) / 16, w);
      want[q] = (char)(data[q] ^ w[(pos + q) % 16]);
    }
    uint8_t *in = exact(data.data(), n);
    uint8_t *out = (uint8_t *)malloc(n);
    c02_ctr_stream(s, in, out, n);
    if (memcmp(out, want.data(), n) != 0)
      o.fail("ctr-far-tail", "after " + std::to_string(pos) + " bytes of stream, call of " + std::to_string(n) + " bytes: " + first_diff(out, (const uint8_t *)want.data(), n, pos));
    free(out);
    free(in);
    pos += n;
  }
  c02_ctr_free(s);
  c02_key_free(lk);
  o.cls("position:" + std::to_string(k) + "*2^32");
  o.cls(pos > (k << 32) ? "calls-continue-past-k*2^32" : "stops-before-k*2^32");
  pbt::count("far:blocks-judged-by-own-reference", judged);
  o.nontrivial = pos > (k << 32);
  return o;
}

int main(int argc, char **argv) {
  self_test();
  if (argc > 1 && std::string(argv[1]) == "--which-path") {
    printf("crypto_aes_can_use_intrinsics() = %d\n", c02_can_use_intrinsics());
    return 0;
  }
  std::vector<Sub> subs;
  subs.push_back({"block",
                  "key 16|32 bytes (pseudo-random, explicit generated bytes, all-zero, all-FF, single bit) x 1..4 blocks (random, zero, FF, "
                  "single bit), in==out or separate exact-size heap buffers; oracle = byte-wise FIPS-197 in the harness (computed S-box, "
                  "self-tested on FIPS-197 App. A/B/C, cross-checked with OpenSSL EVP at start-up). Every case is non-trivial",
                  gen_block, run_block});
  subs.push_back({"ctr",
                  "1-2 keys, 1-3 stream segments (crypto_aesctr_init | alloc+init2 | init2 on the live object with same/new key pointer or "
                  "NULL key), nonce in {0, 2^64-1, 2^(8k), 2^(8k)-1, random}; per segment a focus position (0, 4096k, 1 MiB, random <= 1.2 "
                  "MiB) reached by one huge call / unaligned head + huge call / 2-4 calls, then 0..30 calls drawn from {0, 1..15, 16, "
                  "17..64, exactly to the boundary, boundary+1..15 (tail generates the carry block), boundary+16.., head+whole blocks, "
                  "65..70000}; in-place or separate exact-size buffers; optional crypto_aesctr_buf one-shots. Oracle: input XOR "
                  "AES_ref(k, nonce_be64||index_be64) from the harness's FIPS-197 code; segment output decrypted by a fresh stream cut "
                  "elsewhere must give the input. Non-trivial: crosses a 256-block counter carry, or >= 3 calls with one straddling a block",
                  gen_ctr, run_ctr});
  subs.push_back({"carrygrid",
                  "one call up to (carry + delta), then calls of len1 and len2: carry in {block 256, 512, 65536}, delta in -33..16, "
                  "len1,len2 in 0..48, 4 fixed (key,nonce) pairs, in-place or not; every byte compared with the reference keystream. "
                  "Non-trivial: the carry block is produced",
                  gen_grid, run_grid});
  subs.push_back({"carrysweep",
                  "each case ENUMERATES the whole grid delta in -33..16 (every start mod 16, before/at/after the carry) x len1 in 0..48 "
                  "(2450 three-call streams: one call to carry+delta, then len1, then a seed-derived len2 in 0..48) for one carry in "
                  "{block 256, 512, 65536}, one of 4 fixed (key,nonce) pairs, in-place or not; every byte compared with the reference "
                  "keystream. Always non-trivial",
                  gen_sweep, run_sweep});
  subs.push_back({"huge",
                  "one in-place call of 2^k*16+delta bytes (k in 16..20 quick; 24 (256 MiB: the counter carries into its 4th byte) and 20..23 thorough), "
                  "delta in -33..16, then two calls of 0..48 bytes; 4 fixed (key,nonce) pairs. The harness's FIPS-197 reference judges "
                  "the first/last 4 blocks, all blocks -1/0/+1 around every multiple of 65536, -1/0 around the first 40 multiples of "
                  "256, 6 blocks around 2^k, 64 pseudo-random blocks and the short calls; OpenSSL EVP ECB over the counter blocks is a "
                  "second opinion for the remaining bulk (any disagreement is re-judged by the reference). Always non-trivial",
                  gen_huge, run_huge});
  subs.push_back({"far",
                  "the stream is driven to byte position k*2^32 + delta (k = 1; thorough: 1, 2 or 16, i.e. block index 2^32; delta in -40..40) by in-place calls on 16..128 MiB of zeros, the blocks at both "
                  "ends of every call are judged by the FIPS-197 reference, then two calls of 0..96 bytes are judged byte by byte. Non-trivial: the calls continue past k*2^32",
                  gen_far, run_far});
  subs.push_back({"far64",
                  "thorough only: the stream is always driven to 64 GiB (block index 2^32): either to 1..40 bytes short of it, followed by a call of 64..96 bytes that crosses it, or with "
                  "a shortened first call so that one 16..128 MiB call straddles 2^36 (blocks on both sides of the boundary judged by the reference). Always non-trivial",
                  gen_far64, run_far});
  return pbt_main(argc, argv, subs);
}
