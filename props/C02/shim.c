/* C02 shim: plain-C access to crypto_aes_* and crypto_aesctr_* (opaque pointers). */
#include <stdint.h>
#include <stdlib.h>
#include <string.h>
#include <stddef.h>

#include "crypto_aes.h"
#include "crypto_aesctr.h"

#include "shim.h"

int
c02_can_use_intrinsics(void)
{

	return (crypto_aes_can_use_intrinsics());
}

void *
c02_key_expand(const uint8_t * key, size_t len)
{
	uint8_t * blk;
	void * k;
	size_t off;

	/*
	 * "For every key": the caller's key buffer may sit at any address.  Hand the
	 * key over at a misalignment 0..15 chosen by the key itself (a pure function
	 * of the case), inside a heap block which ends exactly at the key's end.
	 */
	off = (len > 0) ? (size_t)((key[0] ^ key[len - 1]) & 15) : 0;
	if ((blk = malloc(len + off)) == NULL)
		return (NULL);
	memcpy(blk + off, key, len);
	k = crypto_aes_key_expand(blk + off, len);
	free(blk);
	return (k);
}

void
c02_key_free(void * key)
{

	crypto_aes_key_free(key);
}

void
c02_encrypt_block(const uint8_t * in, uint8_t * out, const void * key)
{

	crypto_aes_encrypt_block(in, out, key);
}

void *
c02_ctr_init(const void * key, uint64_t nonce)
{

	return (crypto_aesctr_init(key, nonce));
}

void *
c02_ctr_alloc(void)
{

	return (crypto_aesctr_alloc());
}

void
c02_ctr_init2(void * stream, const void * key, uint64_t nonce)
{

	crypto_aesctr_init2(stream, key, nonce);
}

void
c02_ctr_stream(void * stream, const uint8_t * in, uint8_t * out, size_t len)
{

	crypto_aesctr_stream(stream, in, out, len);
}

void
c02_ctr_free(void * stream)
{

	crypto_aesctr_free(stream);
}

void
c02_ctr_buf(const void * key, uint64_t nonce, const uint8_t * in,
    uint8_t * out, size_t len)
{

	crypto_aesctr_buf(key, nonce, in, out, len);
}
