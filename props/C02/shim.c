/* C02 shim: plain-C access to crypto_aes_* and crypto_aesctr_* (opaque pointers). */
#include <stdint.h>
#include <stddef.h>

#include "crypto_aes.h"
#include "crypto_aesctr.h"

#include "shim.h"

int
c02_can_use_intrinsics(void)
{

	return (crypto_aes_can_use_intrinsics());
}

void *
c02_key_expand(const uint8_t * key, size_t len)
{

	return (crypto_aes_key_expand(key, len));
}

void
c02_key_free(void * key)
{

	crypto_aes_key_free(key);
}

void
c02_encrypt_block(const uint8_t * in, uint8_t * out, const void * key)
{

	crypto_aes_encrypt_block(in, out, key);
}

void *
c02_ctr_init(const void * key, uint64_t nonce)
{

	return (crypto_aesctr_init(key, nonce));
}

void *
c02_ctr_alloc(void)
{

	return (crypto_aesctr_alloc());
}

void
c02_ctr_init2(void * stream, const void * key, uint64_t nonce)
{

	crypto_aesctr_init2(stream, key, nonce);
}

void
c02_ctr_stream(void * stream, const uint8_t * in, uint8_t * out, size_t len)
{

	crypto_aesctr_stream(stream, in, out, len);
}

void
c02_ctr_free(void * stream)
{

	crypto_aesctr_free(stream);
}

void
c02_ctr_buf(const void * key, uint64_t nonce, const uint8_t * in,
    uint8_t * out, size_t len)
{

	crypto_aesctr_buf(key, nonce, in, out, len);
}
