import os
ID = "C02"
LEVEL = "exploration"
HERE = os.path.dirname(os.path.abspath(__file__))
ASSUMPTIONS = [
    "oracle: byte-wise FIPS-197 AES written in the harness (S-box computed from GF(2^8) inversion + affine map), self-tested at "
    "start-up on FIPS-197 Appendix A.3/B/C.1/C.3 and cross-checked with OpenSSL EVP aes-128/256-ecb on 1600 blocks; OpenSSL never "
    "judges a case (libcperciva's software path is OpenSSL AES_encrypt)",
    "crypto_aes_key_expand only with 16 or 32 bytes; AES-CTR in/out buffers identical or disjoint; init2 with a NULL key only on a "
    "stream that already has one (interface preconditions)",
    "the code path that runs is the one the library selects on this host (AES-NI here); the portable path is compared in C03",
    "counter carries at 2^24 blocks and above (>= 256 MiB streams) are not exercised",
    "trusted: clang 14 + ASan/UBSan, rapidcheck",
]
SUBS = [
    dict(name="block", quick=dict(cases=40000, shards=2), thorough=dict(cases=400000, shards=2)),
    dict(name="ctr", quick=dict(cases=1500, shards=9), thorough=dict(cases=15000, shards=9)),
    dict(name="carrygrid", quick=dict(cases=3000, shards=3), thorough=dict(cases=30000, shards=3)),
    dict(name="carrysweep", quick=dict(cases=6, shards=1), thorough=dict(cases=12, shards=4)),
    dict(name="huge", quick=dict(cases=40, shards=1), thorough=dict(cases=8, shards=3)),
    dict(name="far", quick=dict(cases=1, shards=2), thorough=dict(cases=3, shards=4)),
    dict(name="far64", thorough=dict(cases=1, shards=3)),
]
LIB = {"crypto_aes.c", "crypto_aes_aesni.c", "crypto_aesctr.c", "crypto_aesctr_aesni.c", "cpusupport_x86_aesni.c",
       "insecure_memzero.c", "warnp.c"}


def build(B):
    lib = B.build_lib("asan", only=LIB)
    shim = B.compile_c(os.path.join(HERE, "shim.c"))
    core = B.compile_cxx(os.path.join(HERE, "core.cpp"))
    return B.link(os.path.join(B.BUILD, "bin", "C02"), [core, shim] + list(lib.values()), libs=["-lrapidcheck", "-lcrypto"])

MANIFEST = dict(
    engine="rapidcheck",
    technique="property-based differential testing: generated keys/blocks and AES-CTR call histories vs. a byte-wise FIPS-197 "
              "reference written in the harness (partition-independent reference keystream, round trip, re-initialisation model)",
    text="Generated search: block encryption under 16/32-byte keys (random, explicit, all-zero, all-FF, single-bit) against the "
         "harness's own FIPS-197 implementation; AES-CTR call histories (1-3 segments on one stream object via crypto_aesctr_init, "
         "alloc+init2, init2 with same/new/NULL key; nonces 0, 2^64-1, byte boundaries, random; focus positions at the 256-block and "
         "65536-block counter carries reached by huge/unaligned/multi-call skips; 0-length, sub-block, block-straddling, exact-to-boundary "
         "and boundary+1..15 calls so the carry block is produced by the bulk path, by the tail generator, or consumed by a later head; "
         "in-place and separate buffers; crypto_aesctr_buf) against the partition-independent reference keystream "
         "AES_ref(k, nonce_be64||index_be64), plus decrypt-restores-input per segment; a grid of (start mod 16, len1, len2) around the "
         "carries, sampled (carrygrid) and enumerated completely per case (carrysweep: 50 start deltas x 49 lengths); streams of 2^16..2^20 blocks in quick and 2^24 blocks (256 MiB) in thorough. Exploration is the right level: keys, "
         "nonces and histories are unbounded, the oracle is exact, and the classes named by the property (head/whole/tail x carry, "
         "re-initialisation with and without a new key) are populated deliberately and reported in the class histogram. Block encryption is also tried with partially overlapping in/out blocks (documented as allowed), stream calls with buffers that touch without overlapping, and, in the thorough tier, every far64 case walks the stream to 64 GiB (block index 2^32) and crosses it inside one call.",
    note="Trusted: clang 14 + ASan/UBSan, rapidcheck, the FIPS-197 reference in props/C02/core.cpp (validated at start-up on FIPS-197 "
         "vectors and against OpenSSL EVP). The AES-NI paths run on this host; a broken AES-NI block function is disabled by the "
         "library's own start-up self-test (falls back to OpenSSL), so block-level AES-NI faults that the two FIPS vectors expose are "
         "invisible at the interface; portable-vs-accelerated equality is C03. Carries at >= 2^32 blocks are out of reach. In the "
         "256 MiB stream the bulk is second-guessed by OpenSSL ECB while the reference judges ~1000 sampled blocks incl. every carry.",
)
