#!/bin/sh
# MANIFEST.setup_cmd: pre-build every harness (the slow rapidcheck TUs are cached under
# build/; checks rebuild whatever depends on /repo themselves).  Offline, files on disk only.
cd "$(dirname "$0")" || exit 1
exec python3 engine/setup_all.py
