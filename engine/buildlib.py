"""Build layer: compiles libcperciva from /repo's *current working tree*, out of
tree, into /verif/build/obj/<variant>/, keyed by content hash (DESIGN.md §2.1).

Nothing is ever written under /repo.
"""
import hashlib
import os
import re
import subprocess
import threading
import sys
import fcntl
from concurrent.futures import ThreadPoolExecutor

VERIF = os.path.dirname(os.path.dirname(os.path.abspath(__file__)))
REPO = os.environ.get("VERIF_REPO", "/repo")
BUILD_SHARED = os.path.join(VERIF, "build")
# a non-default repo (mutation testing) gets its own build/run area so that it never
# disturbs checks of /repo running at the same time
BUILD = BUILD_SHARED if REPO == "/repo" else os.path.join(VERIF, "build", "alt-" + hashlib.sha256(REPO.encode()).hexdigest()[:10])

SAN = ["-fsanitize=address,undefined", "-fno-sanitize=pointer-overflow,nonnull-attribute",
       "-fno-sanitize-recover=undefined", "-fno-omit-frame-pointer"]
VARIANT_FLAGS = {
    "asan": ["-g", "-O1"] + SAN,
    "fuzz": ["-g", "-O1", "-fsanitize=fuzzer-no-link"] + SAN,
    "pic": ["-g", "-O1", "-fPIC"] + SAN,
    "o2": ["-g", "-O2"],
    "o2pic": ["-g", "-O2", "-fPIC"],
    "o2lto": ["-g", "-O2", "-flto"],  # link-time optimisation: the optimiser sees across the library's translation units
}

# what cpusupport.sh finds on this host; C03 builds subsets of these
ALL_CPU = ["X86_CPUID", "X86_CPUID_COUNT", "X86_AESNI", "X86_RDRAND", "X86_SHANI",
           "X86_SSE2", "X86_SSE42", "X86_SSE42_64", "X86_SSSE3", "HWCAP_GETAUXVAL"]
CPU_CFLAGS = {"X86_AESNI": ["-maes"], "X86_RDRAND": ["-mrdrnd"], "X86_SHANI": ["-msse2", "-msha"],
              "X86_SSE2": [], "X86_SSE42": ["-msse4.2"], "X86_SSE42_64": ["-msse4.2"],
              "X86_SSSE3": ["-mssse3"]}
DEFAULT_CPU = [f for f in ALL_CPU if f != "X86_RDRAND"]
API = ["NONPOSIX_SETGROUPS", "LIBSSL_HOST_NAME", "LIBCRYPTO_LOW_LEVEL_AES"]

SSL_SRC_RE = re.compile(r"(^network_ssl|^netbuf_ssl|^https\.c$)")  # compiled only on request (build_lib(with_ssl=True)); link with -lssl
SKIP_SRC_RE = re.compile(r"(_arm\.c$|^cpusupport_arm_|^network_ssl|^netbuf_ssl|^https\.c$)")


def sh(cmd, **kw):
    return subprocess.run(cmd, **kw)


def parse_makefile():
    """Return list of (srcpath relative to repo, [CFLAGS tokens]) from liball/Makefile."""
    mk = open(os.path.join(REPO, "liball", "Makefile")).read()
    idirs = re.search(r"^IDIRS=(.*)$", mk, re.M).group(1).split()
    idirs = [os.path.normpath(os.path.join(REPO, "liball", d[2:])) for d in idirs]
    out = []
    for m in re.finditer(r"^\t\$\{CC\}.* -c (\S+) -o (\S+)$", mk, re.M):
        line = m.group(0)
        src = os.path.normpath(os.path.join("liball", m.group(1)))
        toks = re.findall(r"\$\{CFLAGS_([A-Z0-9_]+)\}", line)
        out.append((src, [t for t in toks if t != "POSIX"]))
    return out, idirs


_hdr_hash = None


def header_hash():
    """Hash of every header (and #included .c) under /repo: any edit changes all keys."""
    global _hdr_hash
    if _hdr_hash is None:
        h = hashlib.sha256()
        for root, dirs, files in os.walk(REPO):
            dirs[:] = sorted(d for d in dirs if d not in (".git", "tests", "perftests", "tests-output", "release-tools", "liball", "_build"))
            for f in sorted(files):
                if f.endswith(".h") or f == "crypto_aesctr_shared.c":
                    p = os.path.join(root, f)
                    if root == REPO and f.endswith("-config.h"):
                        continue
                    h.update(p.encode())
                    h.update(open(p, "rb").read())
        _hdr_hash = h.hexdigest()
    return _hdr_hash


def write_if_changed(path, data):
    try:
        if open(path).read() == data:
            return
    except OSError:
        pass
    os.makedirs(os.path.dirname(path), exist_ok=True)
    tmp = path + ".tmp%d_%d" % (os.getpid(), threading.get_ident())
    open(tmp, "w").write(data)
    os.replace(tmp, path)


class Lock:
    def __init__(self, name="build"):
        os.makedirs(BUILD, exist_ok=True)
        self.f = open(os.path.join(BUILD, "." + name + ".lock"), "w")

    def __enter__(self):
        fcntl.flock(self.f, fcntl.LOCK_EX)
        return self

    def __exit__(self, *a):
        fcntl.flock(self.f, fcntl.LOCK_UN)
        self.f.close()


def config_dir(cpu):
    tag = hashlib.sha256(",".join(sorted(cpu)).encode()).hexdigest()[:10]
    d = os.path.join(BUILD, "cfg", tag)
    write_if_changed(os.path.join(d, "cpusupport-config.h"), "".join("#define CPUSUPPORT_%s 1\n" % f for f in sorted(cpu)))
    write_if_changed(os.path.join(d, "apisupport-config.h"), "".join("#define APISUPPORT_%s 1\n" % f for f in API))
    return d


def base_cflags(cpu):
    out, idirs = parse_makefile()
    cfg = config_dir(cpu)
    return (["-std=c99", "-D_POSIX_C_SOURCE=200809L", "-D_XOPEN_SOURCE=700",
             '-DCPUSUPPORT_CONFIG_FILE="cpusupport-config.h"', '-DAPISUPPORT_CONFIG_FILE="apisupport-config.h"',
             "-DLIBCPERCIVA_VERIF", "-I" + cfg, "-I" + REPO] + ["-I" + d for d in idirs] +
            ["-Wno-deprecated-declarations"])


def compile_one(cc, flags, src, objdir, extra_key=""):
    data = open(src, "rb").read()
    key = hashlib.sha256(data + header_hash().encode() + " ".join([cc] + flags).encode() + extra_key.encode()).hexdigest()[:24]
    obj = os.path.join(objdir, os.path.basename(src).rsplit(".", 1)[0] + "-" + key + ".o")
    if not os.path.exists(obj):
        os.makedirs(objdir, exist_ok=True)
        tmp = obj + ".tmp%d_%d" % (os.getpid(), threading.get_ident())
        r = sh([cc] + flags + ["-c", src, "-o", tmp], capture_output=True, text=True)
        if r.returncode != 0:
            sys.stderr.write("COMPILE FAILED: %s\n%s\n" % (src, r.stderr))
            raise SystemExit(4)
        os.replace(tmp, obj)
    return obj


def build_lib(variant="asan", cpu=None, exclude=(), only=None, extra_flags=(), with_ssl=False):
    """Compile the library sources; returns {basename.c: object path}."""
    cpu = DEFAULT_CPU if cpu is None else cpu
    srcs, _ = parse_makefile()
    flags0 = base_cflags(cpu) + VARIANT_FLAGS[variant] + list(extra_flags)
    objdir = os.path.join(BUILD, "obj", variant)
    jobs = []
    for src, toks in srcs:
        bn = os.path.basename(src)
        if (SKIP_SRC_RE.search(bn) and not (with_ssl and SSL_SRC_RE.search(bn))) or bn in exclude:
            continue
        if only is not None and bn not in only:
            continue
        fl = list(flags0)
        for t in toks:
            if t in CPU_CFLAGS and t in cpu:
                fl += CPU_CFLAGS[t]
        jobs.append((bn, fl, os.path.join(REPO, src)))
    res = {}
    with Lock():
        with ThreadPoolExecutor(16) as ex:
            futs = {bn: ex.submit(compile_one, "clang", fl, p, objdir) for bn, fl, p in jobs}
            for bn, f in futs.items():
                res[bn] = f.result()
    return res


def compile_c(src, variant="asan", cpu=None, extra_flags=(), objdir=None):
    """Compile a harness C file (shim) against the repo headers."""
    cpu = DEFAULT_CPU if cpu is None else cpu
    fl = base_cflags(cpu) + VARIANT_FLAGS[variant] + ["-I" + os.path.join(VERIF, "engine")] + list(extra_flags)
    # shims may use gnu extensions (e.g. typeof-free, but fmemopen/memfd need _GNU_SOURCE)
    with Lock():
        return compile_one("clang", fl, src, objdir or os.path.join(BUILD, "obj", "shim-" + variant),
                           extra_key=_dir_hash(os.path.dirname(src)) + _dir_hash(os.path.join(VERIF, "engine")))


_dh = {}


def _dir_hash(d):
    if d not in _dh:
        h = hashlib.sha256()
        for f in sorted(os.listdir(d)):
            if f.endswith((".h", ".inc")):
                h.update(f.encode())
                h.update(open(os.path.join(d, f), "rb").read())
        _dh[d] = h.hexdigest()
    return _dh[d]


CXXFLAGS = ["-std=gnu++17", "-g", "-O1"] + SAN


def compile_cxx(src, extra_flags=(), fuzz=False):
    """Compile a harness core (rapidcheck TU).  Does not include repo headers, so the
    key depends only on the harness sources: setup.sh pre-builds these."""
    fl = CXXFLAGS + ["-I" + os.path.join(VERIF, "engine"), "-I" + os.path.dirname(src)] + list(extra_flags)
    if fuzz:
        fl = fl + ["-fsanitize=fuzzer-no-link"]
    data = open(src, "rb").read()
    key = hashlib.sha256(data + " ".join(fl).encode() + _dir_hash(os.path.dirname(src)).encode() +
                         _dir_hash(os.path.join(VERIF, "engine")).encode()).hexdigest()[:24]
    objdir = os.path.join(BUILD_SHARED, "obj", "core")
    obj = os.path.join(objdir, os.path.basename(os.path.dirname(src)) + "-" + os.path.basename(src).rsplit(".", 1)[0] + "-" + key + ".o")
    if not os.path.exists(obj):
        os.makedirs(objdir, exist_ok=True)
        with Lock("core-" + key):
            if not os.path.exists(obj):
                tmp = obj + ".tmp%d_%d" % (os.getpid(), threading.get_ident())
                r = sh(["clang++"] + fl + ["-c", src, "-o", tmp], capture_output=True, text=True)
                if r.returncode != 0:
                    sys.stderr.write("COMPILE FAILED: %s\n%s\n" % (src, r.stderr))
                    raise SystemExit(4)
                os.replace(tmp, obj)
    return obj


def link(out, objs, libs=(), wraps=(), fuzz=False, extra=()):
    os.makedirs(os.path.dirname(out), exist_ok=True)
    # link to a private name and rename: another check may be executing (or linking) the same binary right now
    tmp = out + ".tmp%d_%d" % (os.getpid(), threading.get_ident())
    cmd = ["clang++"] + SAN + (["-fsanitize=fuzzer"] if fuzz else []) + ["-o", tmp] + list(objs)
    for w in wraps:
        cmd.append("-Wl,--wrap=" + w)
    cmd += list(extra) + list(libs)
    r = sh(cmd, capture_output=True, text=True)
    if r.returncode != 0 and "undefined reference" in r.stderr and not fuzz:
        # The harness links a hand-picked set of library files.  A change to the library may make one of them need another library file
        # (say, a wipe through insecure_memzero): retry with an archive of the whole library behind the object list, from which the
        # linker takes only the members that resolve something.
        m = re.search(r"/obj/(asan|o2lto|o2pic|o2|pic)/", " ".join(objs))
        if m:
            try:
                allobjs = build_lib(m.group(1))
                ar = os.path.join(BUILD, "obj", "whole-%s-%d_%d.a" % (m.group(1), os.getpid(), threading.get_ident()))
                if sh(["ar", "rcs", ar] + sorted(allobjs.values()), capture_output=True, text=True).returncode == 0:
                    r = sh(cmd + [ar] + list(libs), capture_output=True, text=True)
                    os.unlink(ar)
            except SystemExit:
                pass
    if r.returncode != 0:
        sys.stderr.write("LINK FAILED: %s\n%s\n" % (out, r.stderr))
        try:
            os.unlink(tmp)
        except OSError:
            pass
        raise SystemExit(4)
    os.replace(tmp, out)
    return out
