// pbt.h -- shared case runner for all property harnesses (see DESIGN.md §2.2).
//
// A harness is a set of named sub-properties.  Each supplies a rapidcheck
// generator producing a Case (a vector of small serialisable ops) and a run
// function mapping a Case to an Outcome.  This header provides: the canonical
// text serialisation (replay files, evidence samples, distinctness digests),
// fork isolation, statistics / evidence output, and main().
//
// No randomness other than rapidcheck's, no wall clock in any oracle (the only
// clock use is the optional --max-seconds budget, which truncates, never fails).
#pragma once
#include <rapidcheck.h>

#include <algorithm>
#include <cassert>
#include <cerrno>
#include <chrono>
#include <csignal>
#include <cstdint>
#include <cstdio>
#include <cstdlib>
#include <cstring>
#include <fcntl.h>
#include <functional>
#include <map>
#include <set>
#include <sstream>
#include <string>
#include <sys/mman.h>
#include <sys/resource.h>
#include <sys/wait.h>
#include <sys/select.h>
#include <unistd.h>
#include <unordered_set>
#include <vector>

namespace pbt {

struct Op {
  std::string k;            // op kind (no spaces)
  std::vector<int64_t> a;   // integer arguments
  std::string b;            // byte payload
  Op() {}
  Op(std::string kk, std::vector<int64_t> aa = {}, std::string bb = "")
      : k(std::move(kk)), a(std::move(aa)), b(std::move(bb)) {}
  bool operator==(const Op &o) const { return k == o.k && a == o.a && b == o.b; }
};
using Case = std::vector<Op>;

inline void showValue(const Op &o, std::ostream &os) {
  os << o.k;
  for (auto v : o.a) os << ' ' << v;
  if (!o.b.empty()) os << " #" << o.b.size() << "B";
}

inline std::string hex(const std::string &s) {
  static const char *d = "0123456789abcdef";
  std::string r;
  r.reserve(s.size() * 2);
  for (unsigned char c : s) {
    r.push_back(d[c >> 4]);
    r.push_back(d[c & 15]);
  }
  return r;
}
inline std::string unhex(const std::string &s) {
  std::string r;
  auto v = [](char c) { return c <= '9' ? c - '0' : (c | 32) - 'a' + 10; };
  for (size_t i = 0; i + 1 < s.size(); i += 2) r.push_back((char)(v(s[i]) * 16 + v(s[i + 1])));
  return r;
}

inline std::string to_text(const Case &c) {
  std::string r;
  for (auto &o : c) {
    r += o.k;
    for (auto v : o.a) {
      r += ' ';
      r += std::to_string(v);
    }
    if (!o.b.empty()) {
      r += " #";
      r += hex(o.b);
    }
    r += '\n';
  }
  return r;
}
inline Case from_text(const std::string &t) {
  Case c;
  std::istringstream is(t);
  std::string line;
  while (std::getline(is, line)) {
    if (line.empty() || line[0] == '%') continue;
    std::istringstream ls(line);
    Op o;
    ls >> o.k;
    std::string tok;
    while (ls >> tok) {
      if (tok[0] == '#')
        o.b = unhex(tok.substr(1));
      else
        o.a.push_back(strtoll(tok.c_str(), nullptr, 10));
    }
    c.push_back(o);
  }
  return c;
}

inline uint64_t fnv(const std::string &s) {
  uint64_t h = 1469598103934665603ULL;
  for (unsigned char ch : s) {
    h ^= ch;
    h *= 1099511628211ULL;
  }
  return h;
}

struct Outcome {
  bool ok = true;
  std::string msg;  // failure description
  std::string sig;  // failure class signature (matched against known findings)
  bool nontrivial = false;
  std::vector<std::string> classes;
  std::map<std::string, uint64_t> counters;  // summed into evidence coverage.counters
  uint64_t weight = 1;                // executions this case stands for (fault enumeration: one per injected fault)
  std::vector<uint64_t> digests;      // if non-empty: digests of the non-trivial sub-executions (instead of the case digest)
  void fail(const std::string &s, const std::string &m) {
    if (ok) {
      ok = false;
      sig = s;
      msg = m;
    }
  }
  void cls(const std::string &c) {
    if (std::find(classes.begin(), classes.end(), c) == classes.end()) classes.push_back(c);
  }
};

// Sound helpers: inclusive range that does not collapse at small sizes.
template <typename T> rc::Gen<T> range(T lo, T hi) {
  return rc::gen::resize(100, rc::gen::inRange<T>(lo, (T)(hi + 1)));
}
inline rc::Gen<std::string> bytes(size_t n) {
  return rc::gen::map(rc::gen::container<std::vector<uint8_t>>(n, rc::gen::resize(100, rc::gen::arbitrary<uint8_t>())),
                      [](std::vector<uint8_t> v) { return std::string(v.begin(), v.end()); });
}
// Cheap deterministic pseudo-random bytes from a generated seed: for big
// payloads, where shrinking every byte is pointless.  (Pure function of seed.)
inline std::string prbytes(uint64_t seed, size_t n) {
  std::string r(n, 0);
  uint64_t x = seed * 0x9E3779B97F4A7C15ULL + 0x632BE59BD9B4E019ULL;
  for (size_t i = 0; i < n; i++) {
    x ^= x >> 12;
    x ^= x << 25;
    x ^= x >> 27;
    r[i] = (char)((x * 0x2545F4914F6CDD1DULL) >> 56);
  }
  return r;
}

struct Sub {
  std::string name;
  std::string rule;                       // generation + non-triviality rule (evidence text)
  std::function<rc::Gen<Case>(int)> gen;  // argument: tier (0 quick, 1 thorough)
  std::function<Outcome(const Case &)> run;
  bool fork = false;  // always isolate each case in a child
  int timeout_s = 20; // per-case alarm in fork mode
  // fork mode only: called from the child's LAST atexit handler (i.e. after the library's own
  // atexit clean-up has run) and may amend the outcome, e.g. "no library allocation left".
  std::function<void(Outcome &)> exit_check;
};

namespace detail {
struct State {
  const Sub *sub = nullptr;
  bool fork = false;
  uint64_t evals = 0, nontriv_evals = 0, truncated = 0, known_hits = 0;
  std::unordered_set<uint64_t> digests;
  std::map<std::string, uint64_t> classes;
  std::map<std::string, int> class_samples;
  std::vector<std::string> samples;
  std::map<std::string, uint64_t> known_by_sig;
  std::set<std::string> known;
  std::map<std::string, uint64_t> counters;
  bool failed = false;
  std::string fail_msg, fail_sig;
  std::string prefix;
  char *last = nullptr;
  size_t last_cap = 1 << 22;
  double deadline = 0;
  double shrink_deadline = 0;   // after the first failure: stop shrinking after this instant
  double shrink_budget = 30;
};
inline State &st() {
  static State s;
  return s;
}
inline double now() {
  return std::chrono::duration<double>(std::chrono::steady_clock::now().time_since_epoch()).count();
}
inline std::string jstr(const std::string &s) {
  std::string r = "\"";
  for (unsigned char c : s) {
    if (c == '"' || c == '\\') {
      r += '\\';
      r += (char)c;
    } else if (c == '\n')
      r += "\\n";
    else if (c < 32 || c >= 127) {
      char b[8];
      snprintf(b, sizeof b, "\\u%04x", c);
      r += b;
    } else
      r += (char)c;
  }
  return r + "\"";
}
inline void write_file(const std::string &p, const std::string &d) {
  FILE *f = fopen(p.c_str(), "wb");
  if (!f) return;
  fwrite(d.data(), 1, d.size(), f);
  fclose(f);
}
inline std::string ser_outcome(const Outcome &o) {
  Case c;
  c.push_back(Op("o", {o.ok, o.nontrivial}, o.msg));
  c.push_back(Op("s", {}, o.sig));
  for (auto &x : o.classes) c.push_back(Op("c", {}, x));
  for (auto &kv : o.counters) c.push_back(Op("n", {(int64_t)kv.second}, kv.first));
  c.push_back(Op("w", {(int64_t)o.weight}));
  if (!o.digests.empty()) {
    Op d("d");
    for (auto v : o.digests) d.a.push_back((int64_t)v);
    c.push_back(d);
  }
  return to_text(c);
}
inline Outcome de_outcome(const std::string &t) {
  Outcome o;
  Case c = from_text(t);
  if (c.size() < 2 || c[0].a.size() < 2) {
    o.ok = false;
    o.sig = "crash";
    o.msg = "child produced no outcome";
    return o;
  }
  o.ok = c[0].a[0];
  o.nontrivial = c[0].a[1];
  o.msg = c[0].b;
  o.sig = c[1].b;
  for (size_t i = 2; i < c.size(); i++) {
    if (c[i].k == "c") o.classes.push_back(c[i].b);
    else if (c[i].k == "n" && !c[i].a.empty()) o.counters[c[i].b] += (uint64_t)c[i].a[0];
    else if (c[i].k == "w" && !c[i].a.empty()) o.weight = (uint64_t)c[i].a[0];
    else if (c[i].k == "d") for (auto v : c[i].a) o.digests.push_back((uint64_t)v);
  }
  return o;
}
// Reads the child's report from fd until EOF.  While waiting it watches the child: a child that is SLEEPING (state S/D) and whose CPU time
// has not moved for `blocked_s` consecutive seconds is blocked in a real system call (the harness kernels are simulated, nothing should
// ever sleep for real) and is killed; *blocked is set.  Load cannot cause this verdict: a child that merely waits for a CPU is runnable
// (state R), not sleeping.
inline std::string read_child_report(int fd, pid_t pid, int blocked_s, bool *blocked) {
  std::string t;
  char buf[4096];
  long last_cpu = -1;
  int idle = 0;
  *blocked = false;
  for (;;) {
    // select, not poll: several harnesses interpose poll() at link time (--wrap=poll) for the code under test
    fd_set rf;
    FD_ZERO(&rf);
    FD_SET(fd, &rf);
    struct timeval tv = {1, 0};
    int pr = ::select(fd + 1, &rf, nullptr, nullptr, &tv);
    if (pr < 0 && errno == EINTR) continue;
    if (pr > 0) {
      ssize_t r = read(fd, buf, sizeof buf);
      if (r > 0) {
        t.append(buf, (size_t)r);
        continue;
      }
      if (r < 0 && errno == EINTR) continue;
      break;  // EOF
    }
    // one second without output: look at the child
    char path[64], line[1024];
    snprintf(path, sizeof path, "/proc/%d/stat", (int)pid);
    FILE *f = fopen(path, "r");
    if (!f) continue;
    size_t n = fread(line, 1, sizeof line - 1, f);
    fclose(f);
    line[n] = 0;
    const char *rp = strrchr(line, ')');
    char state = '?';
    long ut = 0, stt = 0;
    if (rp && sscanf(rp + 2, "%c %*d %*d %*d %*d %*d %*u %*u %*u %*u %*u %ld %ld", &state, &ut, &stt) == 3) {
      if ((state == 'S' || state == 'D') && ut + stt == last_cpu)
        idle++;
      else
        idle = 0;
      last_cpu = ut + stt;
      if (idle >= blocked_s) {
        *blocked = true;
        kill(pid, SIGKILL);
        idle = 0;
      }
    }
  }
  return t;
}
inline Outcome run_forked(const Sub &s, const Case &c) {
  int p[2];
  if (pipe(p) != 0) abort();
  fflush(stdout);
  fflush(stderr);
  pid_t pid = fork();
  if (pid == 0) {
    close(p[0]);
    {
      // Hang detection is by CPU time, not wall-clock time (the harnesses never block for real: the
      // kernel is simulated), so a loaded machine cannot turn a slow case into a "hang".  A very long
      // wall-clock alarm is only a backstop against a child sleeping in a real system call.
      struct rlimit rl;
      rl.rlim_cur = (rlim_t)s.timeout_s;
      rl.rlim_max = (rlim_t)s.timeout_s + 5;
      setrlimit(RLIMIT_CPU, &rl);
      alarm((unsigned)s.timeout_s * 60);
    }
    static Outcome child_o;
    static int child_fd;
    static const Sub *child_sub;
    child_fd = p[1];
    child_sub = &s;
    auto finish = +[]() {
      if (child_sub->exit_check) child_sub->exit_check(child_o);
      std::string t = ser_outcome(child_o);
      size_t off = 0;
      while (off < t.size()) {
        ssize_t w = write(child_fd, t.data() + off, t.size() - off);
        if (w <= 0) break;
        off += w;
      }
      _exit(0);
    };
    if (s.exit_check) atexit(finish);  // registered before anything the library registers => runs after it
    child_o = s.run(c);
    if (s.exit_check) exit(0);
    finish();
  }
  close(p[1]);
  bool blocked = false;
  std::string t = read_child_report(p[0], pid, 45, &blocked);
  close(p[0]);
  int wst = 0;
  while (waitpid(pid, &wst, 0) < 0 && errno == EINTR) {
  }
  if (blocked) {
    Outcome o;
    o.ok = false;
    o.sig = "hang";
    o.msg = "child slept in a system call for 45 s without using any CPU time: the code under test blocks for ever";
    return o;
  }
  if (WIFSIGNALED(wst)) {
    Outcome o;
    o.ok = false;
    int sg = WTERMSIG(wst);
    o.sig = (sg == SIGXCPU || sg == SIGKILL || sg == SIGALRM) ? "hang" : "crash";
    o.msg = sg == SIGXCPU || sg == SIGKILL ? "child exceeded its CPU-time limit of " + std::to_string(s.timeout_s) + " s (signal " + std::to_string(sg) + "): endless loop"
                                           : "child killed by signal " + std::to_string(sg);
    return o;
  }
  if (WIFEXITED(wst) && WEXITSTATUS(wst) != 0) {
    Outcome o;
    o.ok = false;
    o.sig = "crash";
    o.msg = "child exited with status " + std::to_string(WEXITSTATUS(wst)) + " (sanitizer report or exit())";
    return o;
  }
  return de_outcome(t);
}
inline void dump_stats() {
  State &S = st();
  if (S.prefix.empty()) return;
  std::string j = "{";
  j += "\"sub\":" + jstr(S.sub->name);
  j += ",\"rule\":" + jstr(S.sub->rule);
  j += ",\"evaluations\":" + std::to_string(S.evals);
  j += ",\"nontrivial_evaluations\":" + std::to_string(S.nontriv_evals);
  j += ",\"distinct_nontrivial\":" + std::to_string(S.digests.size());
  j += ",\"truncated_by_budget\":" + std::to_string(S.truncated);
  j += ",\"known_hits\":" + std::to_string(S.known_hits);
  j += ",\"failed\":" + std::string(S.failed ? "true" : "false");
  j += ",\"fail_msg\":" + jstr(S.fail_msg);
  j += ",\"fail_sig\":" + jstr(S.fail_sig);
  j += ",\"classes\":{";
  bool first = true;
  for (auto &kv : S.classes) {
    if (!first) j += ",";
    first = false;
    j += jstr(kv.first) + ":" + std::to_string(kv.second);
  }
  j += "},\"known_by_sig\":{";
  first = true;
  for (auto &kv : S.known_by_sig) {
    if (!first) j += ",";
    first = false;
    j += jstr(kv.first) + ":" + std::to_string(kv.second);
  }
  j += "},\"counters\":{";
  first = true;
  for (auto &kv : S.counters) {
    if (!first) j += ",";
    first = false;
    j += jstr(kv.first) + ":" + std::to_string(kv.second);
  }
  j += "},\"samples\":[";
  first = true;
  for (auto &s : S.samples) {
    if (!first) j += ",";
    first = false;
    j += jstr(s);
  }
  j += "]}";
  write_file(S.prefix + ".stats.json", j);
  std::string d;
  d.reserve(S.digests.size() * 8);
  for (uint64_t h : S.digests) d.append((const char *)&h, 8);
  write_file(S.prefix + ".digests", d);
}
// Executes one case with all bookkeeping; returns whether the property held.
inline void set_ambient_errno(const std::string &text) {
  static const int AMBIENT[] = {0, 0, ERANGE, EINVAL, EINTR, ENOMEM, EAGAIN, ENOENT};
  errno = AMBIENT[fnv(text) % (sizeof AMBIENT / sizeof AMBIENT[0])];
}
inline bool execute(const Case &c) {
  State &S = st();
  if (S.deadline > 0 && !S.failed && now() > S.deadline) {
    S.truncated++;
    return true;
  }
  if (S.failed && S.shrink_deadline > 0 && now() > S.shrink_deadline) return true;  // stop shrinking, keep current minimum
  std::string text = to_text(c);
  if (S.last) {
    size_t n = std::min(text.size(), S.last_cap - 1);
    memcpy(S.last, text.data(), n);
    S.last[n] = 0;
  }
  // ambient errno: whatever the application did before calling the library may have left any value there; a pure function of the case,
  // so that replays agree (in fork mode the child inherits it)
  set_ambient_errno(text);
  Outcome o = S.fork ? run_forked(*S.sub, c) : S.sub->run(c);
  if (!o.ok && S.known.count(o.sig)) {
    S.known_hits++;
    S.known_by_sig[o.sig]++;
    o.ok = true;
  }
  if (!S.failed) {
    S.evals += o.weight;
    if (!o.digests.empty()) {
      S.nontriv_evals += o.digests.size();
      for (auto d : o.digests) S.digests.insert(d);
    } else if (o.nontrivial) {
      S.nontriv_evals++;
      S.digests.insert(fnv(text));
    }
    for (auto &cl : o.classes) S.classes[cl]++;
    for (auto &kv : o.counters) S.counters[kv.first] += kv.second;
    if (o.ok && S.samples.size() < 12) {
      std::string key = o.classes.empty() ? std::string(o.nontrivial ? "nt" : "t") : o.classes[0];
      if (o.nontrivial || S.samples.empty()) {
        if (S.class_samples[key]++ < 2) {
          std::string s = text.size() > 700 ? text.substr(0, 700) + "...(" + std::to_string(text.size()) + " chars)" : text;
          S.samples.push_back(s);
        }
      }
    }
  }
  if (!o.ok) {
    if (!S.failed) S.shrink_deadline = now() + S.shrink_budget;
    S.failed = true;
    S.fail_msg = o.msg;
    S.fail_sig = o.sig;
    if (!S.prefix.empty())
      write_file(S.prefix + ".fail", "% sub=" + S.sub->name + "\n% sig=" + o.sig + "\n% msg=" +
                                         [&] { std::string m = o.msg; std::replace(m.begin(), m.end(), '\n', ' '); return m; }() + "\n" + text);
  }
  return o.ok;
}
} // namespace detail

// Extra named counters harnesses may bump (e.g. callbacks run, polls issued).
inline void count(const std::string &name, uint64_t n = 1) {
  if (!detail::st().failed && !detail::st().fork) detail::st().counters[name] += n;
}

inline int pbt_main(int argc, char **argv, const std::vector<Sub> &subs) {
  using namespace detail;
  std::string sub, replay, out;
  uint64_t seed = 1;
  long cases = 1000;
  int size = 100, tier = 0;
  bool forkm = false;
  double maxsec = 0;
  std::string known;
  for (int i = 1; i < argc; i++) {
    std::string a = argv[i];
    auto nx = [&]() -> std::string { return i + 1 < argc ? argv[++i] : ""; };
    if (a == "--sub") sub = nx();
    else if (a == "--replay") replay = nx();
    else if (a == "--out") out = nx();
    else if (a == "--seed") seed = strtoull(nx().c_str(), 0, 10);
    else if (a == "--cases") cases = atol(nx().c_str());
    else if (a == "--size") size = atoi(nx().c_str());
    else if (a == "--tier") tier = atoi(nx().c_str());
    else if (a == "--fork") forkm = true;
    else if (a == "--max-seconds") maxsec = atof(nx().c_str());
    else if (a == "--known") known = nx();
    else if (a == "--shrink-seconds") st().shrink_budget = atof(nx().c_str());
    else if (a == "--list") {
      for (auto &s : subs) printf("%s\n", s.name.c_str());
      return 0;
    } else {
      fprintf(stderr, "unknown arg %s\n", a.c_str());
      return 2;
    }
  }
  State &S = st();
  {
    std::istringstream ks(known);
    std::string k;
    while (std::getline(ks, k, ','))
      if (!k.empty()) S.known.insert(k);
  }
  if (!replay.empty()) {
    FILE *f = fopen(replay.c_str(), "rb");
    if (!f) {
      fprintf(stderr, "cannot open %s\n", replay.c_str());
      return 2;
    }
    std::string t;
    char buf[65536];
    size_t n;
    while ((n = fread(buf, 1, sizeof buf, f)) > 0) t.append(buf, n);
    fclose(f);
    // header line: % sub=NAME
    size_t p = t.find("% sub=");
    if (p != std::string::npos && sub.empty()) {
      size_t e = t.find('\n', p);
      sub = t.substr(p + 6, e - p - 6);
    }
    const Sub *sp = nullptr;
    for (auto &s : subs)
      if (s.name == sub) sp = &s;
    if (!sp) {
      fprintf(stderr, "unknown sub '%s'\n", sub.c_str());
      return 2;
    }
    Case c = from_text(t);
    detail::set_ambient_errno(to_text(c));
    Outcome o = (forkm || sp->fork) ? run_forked(*sp, c) : sp->run(c);
    printf("REPLAY sub=%s ok=%d sig=%s msg=%s\n", sub.c_str(), (int)o.ok, o.sig.c_str(), o.msg.c_str());
    return o.ok ? 0 : 1;
  }
  const Sub *sp = nullptr;
  for (auto &s : subs)
    if (s.name == sub) sp = &s;
  if (!sp) {
    fprintf(stderr, "unknown sub '%s'\n", sub.c_str());
    return 2;
  }
  S.sub = sp;
  S.fork = forkm || sp->fork;
  S.prefix = out;
  if (maxsec > 0) S.deadline = now() + maxsec;
  if (!out.empty()) {
    int fd = open((out + ".last").c_str(), O_RDWR | O_CREAT | O_TRUNC, 0644);
    if (fd >= 0 && ftruncate(fd, S.last_cap) == 0) {
      void *m = mmap(nullptr, S.last_cap, PROT_READ | PROT_WRITE, MAP_SHARED, fd, 0);
      if (m != MAP_FAILED) S.last = (char *)m;
    }
    if (fd >= 0) close(fd);
    unlink((out + ".fail").c_str());
  }
  if (seed == 0) seed = 0x5eed;
  std::string params = "seed=" + std::to_string(seed) + " max_success=" + std::to_string(cases) + " max_size=" + std::to_string(size) +
                       " max_discard_ratio=100 noshrink=0 verbose_progress=0";
  setenv("RC_PARAMS", params.c_str(), 1);
  rc::Gen<Case> g = sp->gen(tier);
  bool ok = rc::check(sp->name, [&]() {
    Case c = *g;
    RC_ASSERT(execute(c));
  });
  dump_stats();
  fflush(stdout);
  if (!ok && !S.failed) {
    // rapidcheck itself gave up (generation failure): harness error, not a violation.
    fprintf(stderr, "HARNESS-ERROR: rapidcheck failed without a property failure\n");
    return 3;
  }
  return S.failed ? 1 : 0;
}
} // namespace pbt

namespace rc {
template <> struct Arbitrary<pbt::Op> {
  static Gen<pbt::Op> arbitrary() { return gen::just(pbt::Op("nop")); }
};
} // namespace rc
namespace pbt {
inline std::ostream &operator<<(std::ostream &os, const Op &o) {
  showValue(o, os);
  return os;
}
} // namespace pbt
