// allocwrap.h -- fault-injecting, leak-tracking allocator (DESIGN.md §2.3).
// Link with -Wl,--wrap=malloc,calloc,realloc,free.  Include in exactly one TU.
//
// Only allocations made while `armed` (i.e. between entry to and exit from a library
// call made by the harness) are tracked and eligible for failure; harness code that runs
// inside library callbacks should use aw::Pause to step out.  Frees are always honoured.
#pragma once
#include <cerrno>
#include <cstddef>
#include <cstdint>
#include <cstdlib>
#include <cstring>
#include <malloc.h>

namespace aw {
struct Entry {
  void *p;
  size_t n;
  long seq;
};
struct State {
  bool armed = false;
  long calls = 0;          // allocation calls seen while armed (malloc/calloc/realloc with size > 0)
  long fail_at = -1;       // fail the call with this 1-based index ...
  bool persistent = false; // ... and every later one
  long fail_count = 1;     // (not persistent) ... and the fail_count - 1 calls after it
  long failures = 0;
  long live_at_first_failure = -1;
  // live set (open addressing would be faster; sizes here are tiny)
  Entry *live = nullptr;
  size_t nlive = 0, cap = 0;
  void (*on_free)(void *, size_t) = nullptr;      // tracked blocks only
  void (*on_free_all)(void *, size_t) = nullptr;  // every free() issued while armed (untracked blocks: malloc_usable_size)
  bool busy = false;  // re-entrancy guard for the bookkeeping itself
};
inline State &S() {
  static State s;
  return s;
}
struct Arm {
  bool prev;
  Arm() : prev(S().armed) { S().armed = true; }
  ~Arm() { S().armed = prev; }
};
struct Pause {
  bool prev;
  Pause() : prev(S().armed) { S().armed = false; }
  ~Pause() { S().armed = prev; }
};
inline void reset() {
  State &s = S();
  s.armed = false;
  s.calls = 0;
  s.fail_at = -1;
  s.persistent = false;
  s.fail_count = 1;
  s.failures = 0;
  s.live_at_first_failure = -1;
  s.nlive = 0;
  s.on_free = nullptr;
  s.on_free_all = nullptr;
}
// every failure that was ordered has been delivered and the allocator works again (never true in persistent mode)
inline bool recovered() {
  State &s = S();
  return !s.persistent && s.fail_at > 0 && s.calls >= s.fail_at + s.fail_count - 1;
}
inline size_t live_count() { return S().nlive; }
inline size_t live_bytes() {
  size_t t = 0;
  for (size_t i = 0; i < S().nlive; i++) t += S().live[i].n;
  return t;
}
}  // namespace aw

extern "C" {
void *__real_malloc(size_t);
void *__real_calloc(size_t, size_t);
void *__real_realloc(void *, size_t);
void __real_free(void *);

static void aw_track(void *p, size_t n) {
  aw::State &s = aw::S();
  if (s.nlive == s.cap) {
    size_t nc = s.cap ? s.cap * 2 : 256;
    aw::Entry *ne = (aw::Entry *)__real_realloc(s.live, nc * sizeof(aw::Entry));
    if (!ne) abort();
    s.live = ne;
    s.cap = nc;
  }
  s.live[s.nlive].p = p;
  s.live[s.nlive].n = n;
  s.live[s.nlive].seq = s.calls;
  s.nlive++;
}
static long aw_find(void *p) {
  aw::State &s = aw::S();
  for (size_t i = s.nlive; i-- > 0;)
    if (s.live[i].p == p) return (long)i;
  return -1;
}
static bool aw_should_fail() {
  aw::State &s = aw::S();
  s.calls++;
  if (s.fail_at > 0 && ((s.calls >= s.fail_at && s.calls < s.fail_at + s.fail_count) || (s.persistent && s.calls > s.fail_at))) {
    if (s.failures == 0) s.live_at_first_failure = (long)s.nlive;
    s.failures++;
    errno = ENOMEM;
    return true;
  }
  return false;
}
void *__wrap_malloc(size_t n) {
  aw::State &s = aw::S();
  if (!s.armed) return __real_malloc(n);
  if (aw_should_fail()) return nullptr;
  void *p = __real_malloc(n);
  if (p) aw_track(p, n);
  return p;
}
void *__wrap_calloc(size_t a, size_t b) {
  aw::State &s = aw::S();
  if (!s.armed) return __real_calloc(a, b);
  if (aw_should_fail()) return nullptr;
  void *p = __real_calloc(a, b);
  if (p) aw_track(p, a * b);
  return p;
}
void *__wrap_realloc(void *q, size_t n) {
  aw::State &s = aw::S();
  if (!s.armed) {
    long i = q ? aw_find(q) : -1;
    void *p = __real_realloc(q, n);
    if (i >= 0 && (p || n == 0)) {
      if (n == 0 || !p)
        s.live[i] = s.live[--s.nlive];
      else {
        s.live[i].p = p;
        s.live[i].n = n;
      }
    }
    return p;
  }
  if (n != 0 && aw_should_fail()) return nullptr;  // the old block stays valid
  long i = q ? aw_find(q) : -1;
  size_t oldn = i >= 0 ? s.live[i].n : 0;
  if (q && i >= 0 && s.on_free && n == 0) s.on_free(q, oldn);
  void *p = __real_realloc(q, n);
  if (i >= 0) {
    if (n == 0)
      s.live[i] = s.live[--s.nlive];
    else if (p) {
      s.live[i].p = p;
      s.live[i].n = n;
    }
  } else if (p && n)
    aw_track(p, n);
  return p;
}
void __wrap_free(void *p) {
  aw::State &s = aw::S();
  if (p) {
    long i = aw_find(p);
    if (s.armed && s.on_free_all) s.on_free_all(p, i >= 0 ? s.live[i].n : malloc_usable_size(p));
    if (i >= 0) {
      if (s.on_free) s.on_free(p, s.live[i].n);
      s.live[i] = s.live[--s.nlive];
    }
  }
  __real_free(p);
}
}
