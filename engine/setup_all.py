"""Pre-build all harness binaries in parallel (core TUs are the slow part)."""
import importlib.util
import os
import sys
from concurrent.futures import ThreadPoolExecutor

sys.path.insert(0, os.path.dirname(os.path.abspath(__file__)))
import buildlib as B  # noqa: E402


def one(pid):
    p = os.path.join(B.VERIF, "props", pid, "prop.py")
    spec = importlib.util.spec_from_file_location("prop_" + pid, p)
    m = importlib.util.module_from_spec(spec)
    spec.loader.exec_module(m)
    if hasattr(m, "prebuild"):
        m.prebuild(B)
    else:
        m.build(B)
    return pid


def main():
    from ready import READY
    pids = [d for d in READY if os.path.exists(os.path.join(B.VERIF, "props", d, "prop.py"))]
    # build the library objects once first so the parallel prop builds hit the cache
    B.build_lib("asan")
    ok = True
    with ThreadPoolExecutor(8) as ex:
        futs = {pid: ex.submit(one, pid) for pid in pids}
        for pid, f in futs.items():
            try:
                f.result()
                print("built", pid)
            except BaseException as e:  # noqa
                ok = False
                print("FAILED", pid, repr(e))
    sys.exit(0 if ok else 1)


if __name__ == "__main__":
    main()
