# Harnesses that passed unchanged-tree sweeps (and whose sensitivity runs are recorded in props/Cnn/SENSITIVITY.md).
# MANIFEST.json claims exactly these; setup.sh pre-builds exactly these.
READY = ["C01", "C02", "C03", "C04", "C05", "C06", "C07", "C08", "C09", "C12", "C13", "C14", "C15", "C16", "C17", "C18", "C20"]
