# Harnesses that passed unchanged-tree sweeps (and whose sensitivity runs are recorded in props/Cnn/SENSITIVITY.md).
# MANIFEST.json claims exactly these; setup.sh pre-builds exactly these.
READY = ["C%02d" % i for i in range(1, 21)]
