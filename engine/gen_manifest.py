"""Regenerates MANIFEST.json from props/*/prop.py (each may define MANIFEST = dict(text=..., note=..., technique=..., design_ref=...))."""
import importlib.util
import json
import os
import sys

VERIF = os.path.dirname(os.path.dirname(os.path.abspath(__file__)))
ALL = ["C%02d" % i for i in range(1, 21)]
sys.path.insert(0, os.path.dirname(os.path.abspath(__file__)))
from ready import READY  # noqa: E402


def load(pid):
    p = os.path.join(VERIF, "props", pid, "prop.py")
    if not os.path.exists(p):
        return None
    spec = importlib.util.spec_from_file_location("prop_" + pid, p)
    m = importlib.util.module_from_spec(spec)
    spec.loader.exec_module(m)
    return m


def main():
    checks, na = [], []
    for pid in ALL:
        m = load(pid)
        if m is None or pid not in READY:
            na.append(dict(property_id=pid, reason=getattr(m, "NA_REASON", "harness not built yet in this tree; no check is claimed")))
            continue
        mf = getattr(m, "MANIFEST", {})
        checks.append(dict(
            property_id=pid,
            quick_cmd="./check %s --tier quick" % pid,
            thorough_cmd="./check %s --tier thorough" % pid,
            evidence_file="evidence/%s.json" % pid,
            replay_cmd_template="./check %s --replay {path}" % pid,
            engine=mf.get("engine", "rapidcheck"),
            level_claimed=dict(category=getattr(m, "LEVEL", "exploration"), text=mf.get("text", ""), design_ref=mf.get("design_ref", "DESIGN.md §4 " + pid)),
            level_note=mf.get("note", ""),
            technique=mf.get("technique", "property-based testing (rapidcheck) against an independent oracle"),
        ))
    man = dict(
        version=1,
        setup_cmd="./setup.sh",
        hooks=dict(guard="LIBCPERCIVA_VERIF",
                   enable="harness builds (engine/buildlib.py) pass -DLIBCPERCIVA_VERIF. One hook: datastruct/mpool.h poisons objects cached in a pool "
                          "when built with AddressSanitizer (use after mpool_*_free becomes a sanitizer report); everything else is link-time "
                          "interposition (--wrap, replaced objects) and needs no source change",
                   baseline_off_cmd="cd /repo && make all && make test",
                   source_commits=["a3806b5"], add_only=True),
        engines=[dict(name="pbt", path="engine/pbt.h", serves_properties=[c["property_id"] for c in checks],
                      kind_free_text="rapidcheck case runner: generated Case values, fork isolation, shrinking to replay files, evidence counters"),
                 dict(name="buildlib", path="engine/buildlib.py", serves_properties=[c["property_id"] for c in checks],
                      kind_free_text="out-of-tree ASan/UBSan build of /repo's current working tree, content-hashed cache")],
        checks=checks,
        notes="Driver: ./check Cnn --tier quick|thorough; replay: ./check Cnn --replay <file>. Known findings / fixed defects: known_findings.txt. Design: DESIGN.md.",
        not_applicable=na,
    )
    json.dump(man, open(os.path.join(VERIF, "MANIFEST.json"), "w"), indent=1)
    print("checks:", [c["property_id"] for c in checks])


if __name__ == "__main__":
    main()
