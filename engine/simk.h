// simk.h -- deterministic simulated kernel for socket-level harnesses (DESIGN.md §2.3).
//
// Link with -Wl,--wrap=poll,recv,send,connect,accept,getsockopt,setsockopt,socket,close,bind,fcntl,shutdown
// and WITHOUT util/monoclock.c (this file defines monoclock_get*).  Simulated descriptors
// live in [SIM_BASE, SIM_BASE+SIM_MAX); every other descriptor falls through to __real_*.
// All behaviour is a pure function of the scripts installed by the case.
#pragma once
#include <cerrno>
#include <climits>
#include <csignal>
#include <cstdarg>
#include <cstdint>
#include <cstring>
#include <deque>
#include <fcntl.h>
#include <map>
#include <netinet/in.h>
#include <poll.h>
#include <string>
#include <sys/socket.h>
#include <sys/time.h>
#include <vector>

namespace simk {
static const int SIM_BASE = 40;
static const int SIM_MAX = 200;

enum { IN_DATA, IN_EOF, IN_ERR, IN_SPUR, IN_EINTR };
struct InItem {
  int t = IN_DATA;
  std::string data;
  size_t off = 0;
  int err = 0;
  int64_t delay = 0;  // µs after the previous item was consumed (or after the socket appeared)
  bool hup = false;   // also raise POLLHUP / POLLERR in poll for EOF / ERR
};
enum { OUT_ACCEPT, OUT_EAGAIN, OUT_EINTR, OUT_ERR, OUT_BLOCK };
struct OutItem {
  int t = OUT_ACCEPT;
  size_t n = 0;  // ACCEPT: at most n bytes (>=1)
  int err = 0;
  int64_t delay = 0;  // BLOCK: not writable for this long
};
enum { ACC_EAGAIN, ACC_ECONNABORTED, ACC_EINTR, ACC_NEW, ACC_ERR };
struct AccItem {
  int t = ACC_NEW;
  int err = 0;
  int64_t delay = 0;
};
// connect behaviours, looked up by the port of the address
enum { CB_SOCKET_FAILS, CB_FAIL_NOW, CB_ASYNC_FAIL, CB_ASYNC_OK, CB_OK_NOW, CB_EINTR_OK, CB_EINTR_FAIL, CB_NEVER };
struct AddrBehav {
  int kind = CB_OK_NOW;
  int err = ECONNREFUSED;
  int64_t delay = 0;
  bool errflags = false;  // failed async connect also raises POLLERR|POLLHUP
};

struct Sock {
  bool open = false;
  std::deque<InItem> in;
  int64_t in_at = 0;
  bool in_end = false;  // EOF or ERR reached: sticky
  std::deque<OutItem> out;
  int64_t out_at = 0;
  bool out_failed = false;
  int out_err = 0;
  std::string sent;
  std::string delivered;  // every byte recv() has handed to the library
  long recv_calls = 0, send_calls = 0, recv_after_cancel = 0;
  bool blocking = false;  // the application left the descriptor in blocking mode (nothing in the network_* interface forbids it)
  // connect
  int conn = 0;  // 0 not a connecting socket, 1 in progress, 2 connected, 3 failed
  int64_t conn_at = 0;
  int conn_err = 0;
  bool conn_errflags = false;
  int so_error = 0;
  int addr_port = -1;
  bool bound = false;
  // accept
  bool listening = false;
  std::deque<AccItem> acc;
  int64_t acc_at = 0;
  int closes = 0;
  bool nodelay = false;
  int rcvlowat = 1;  // SO_RCVLOWAT as set by the code under test (1 = the default; only values > 1 change anything below)
  int shutdowns = 0;  // shutdown() calls made by the code under test; SHUT_WR / SHUT_RDWR make every later send() fail with EPIPE, SHUT_RD / SHUT_RDWR end the inbound stream
  size_t in_hold_sent = 0;  // inbound data is withheld until this many bytes were sent (a server that answers after reading the request)
};

struct PollRec {
  int timeout;
  int nready;
  int64_t t_in, t_out;
};

struct Kernel {
  int64_t now = 1000000000;
  std::map<int, Sock> socks;
  int next_fd = SIM_BASE;
  std::map<int, AddrBehav> addrs;  // port -> behaviour
  std::vector<int> connect_order;  // ports in the order connect() was called
  std::vector<int> socket_calls;   // 1 per socket() call
  std::deque<int> socket_script;   // 0 ok, errno otherwise
  std::deque<int> socket_fd_script;  // descriptor numbers for the next socket() results (default: next free number from SIM_BASE)
  int bind_err = 0;
  std::deque<int> poll_eintr;
  bool stuck = false;  // poll would block forever
  long polls = 0, clock_reads = 0;
  bool sigpipe_would_fire = false;
  std::vector<int> closed_unknown;
  std::vector<std::string> log;
  bool logging = false;
  int new_conn_fd_for_accept = -1;
  std::vector<int> accepted_fds;
  void (*on_socket)(int fd) = nullptr;  // called for every descriptor returned by socket()
  long would_block_calls = 0;  // recv() calls on a blocking-mode descriptor for which nothing had arrived
  void (*on_recv)(int fd, long nth) = nullptr;  // called at the start of every recv() on a simulated descriptor (a signal handler may run here)

  void reset() { *this = Kernel(); }
  Sock *get(int fd) {
    auto it = socks.find(fd);
    return it == socks.end() ? nullptr : &it->second;
  }
  int create() {
    int fd = next_fd++;
    while (socks.count(fd)) fd = next_fd++;
    Sock &s = socks[fd];
    s.open = true;
    return fd;
  }
  // A simulated descriptor with a chosen number (0, 1, 2, ... are legitimate socket numbers: a process may have closed
  // its standard descriptors).  All wrapped calls look the number up in `socks` first, so a real descriptor of the same
  // number is simply shadowed for the library.
  int create_at(int fd) {
    if (fd < 0 || socks.count(fd)) return create();
    Sock &s = socks[fd];
    s.open = true;
    return fd;
  }
  void arm_in(Sock &s) {
    if (!s.in.empty()) s.in_at = now + s.in.front().delay;
  }
  // With SO_RCVLOWAT > 1 the kernel reports the socket readable once that many bytes have accumulated (segments keep arriving whether or not
  // anybody reads), or at end-of-stream / on an error.  Time at which that happens for the queued segments; INT64_MAX = never.
  int64_t lowat_time(const Sock &s) const {
    int64_t t = s.in_at;
    size_t have = 0;
    for (size_t i = 0; i < s.in.size(); i++) {
      const InItem &h = s.in[i];
      if (i > 0) t += h.delay;
      if (h.t != IN_DATA) return t;
      have += h.data.size() - (i == 0 ? h.off : 0);
      if (have >= (size_t)s.rcvlowat) return t;
    }
    return INT64_MAX;
  }
  bool in_arrived(const Sock &s) const { return !s.in.empty() && (s.rcvlowat > 1 ? lowat_time(s) : s.in_at) <= now; }
  void arm_out(Sock &s) {
    if (!s.out.empty() && s.out.front().t == OUT_BLOCK) s.out_at = now + s.out.front().delay;
  }
  void arm_acc(Sock &s) {
    if (!s.acc.empty()) s.acc_at = now + s.acc.front().delay;
  }
  void push_in(int fd, const InItem &it) {
    Sock *s = get(fd);
    if (!s) return;
    bool was_empty = s->in.empty();
    s->in.push_back(it);
    if (was_empty) arm_in(*s);
  }
  void push_out(int fd, const OutItem &it) {
    Sock *s = get(fd);
    if (!s) return;
    bool was_empty = s->out.empty();
    s->out.push_back(it);
    if (was_empty) arm_out(*s);
  }
  short ready(Sock &s) {
    short r = 0;
    if (!s.open) return 0;
    if (s.listening) {
      if (!s.acc.empty() && s.acc_at <= now) r |= POLLIN;
      return r;
    }
    if (s.conn == 1) {
      if (s.conn_at <= now) {
        // resolve
        if (s.conn_err) {
          s.conn = 3;
          s.so_error = s.conn_err;
        } else
          s.conn = 2;
      } else
        return 0;
    }
    if (s.conn == 3) {
      r |= POLLOUT;
      if (s.conn_errflags) r |= POLLERR | POLLHUP;
      return r;
    }
    // pop a leading BLOCK whose time has passed
    while (!s.out.empty() && s.out.front().t == OUT_BLOCK && s.out_at <= now) {
      s.out.pop_front();
      arm_out(s);
    }
    if (s.in_end) {
      r |= POLLIN;
    } else if (in_arrived(s) && s.sent.size() >= s.in_hold_sent) {
      r |= POLLIN;
      const InItem &h = s.in.front();
      if (h.hup && h.t == IN_EOF) r |= POLLHUP;
      if (h.hup && h.t == IN_ERR) r |= POLLERR;
    }
    if (s.out_failed)
      r |= POLLOUT;
    else if (s.out.empty() || s.out.front().t != OUT_BLOCK)
      r |= POLLOUT;
    return r;
  }
  int64_t next_change(Sock &s) {
    int64_t m = INT64_MAX;
    if (!s.open) return m;
    if (s.listening) {
      if (!s.acc.empty() && s.acc_at > now) m = std::min(m, s.acc_at);
      return m;
    }
    if (s.conn == 1 && s.conn_at > now) m = std::min(m, s.conn_at);
    if (!s.in_end && !s.in.empty()) {
      int64_t t = s.rcvlowat > 1 ? lowat_time(s) : s.in_at;
      if (t > now && t != INT64_MAX) m = std::min(m, t);
    }
    if (!s.out.empty() && s.out.front().t == OUT_BLOCK && s.out_at > now) m = std::min(m, s.out_at);
    return m;
  }
};
inline Kernel &K() {
  static Kernel k;
  return k;
}
}  // namespace simk

extern "C" {
int __real_poll(struct pollfd *, nfds_t, int);
ssize_t __real_recv(int, void *, size_t, int);
ssize_t __real_send(int, const void *, size_t, int);
int __real_connect(int, const struct sockaddr *, socklen_t);
int __real_accept(int, struct sockaddr *, socklen_t *);
int __real_getsockopt(int, int, int, void *, socklen_t *);
int __real_setsockopt(int, int, int, const void *, socklen_t);
int __real_socket(int, int, int);
int __real_close(int);
int __real_bind(int, const struct sockaddr *, socklen_t);
int __real_shutdown(int, int);
int __real_fcntl(int, int, ...);

int monoclock_get(struct timeval *tv) {
  simk::Kernel &k = simk::K();
  k.clock_reads++;
  tv->tv_sec = k.now / 1000000;
  tv->tv_usec = k.now % 1000000;
  return 0;
}
int monoclock_get_cputime(struct timeval *tv) { return monoclock_get(tv); }
int monoclock_getres(double *r) {
  *r = 1e-6;
  return 0;
}

int __wrap_poll(struct pollfd *fds, nfds_t n, int timeout) {
  using namespace simk;
  Kernel &k = K();
  bool anysim = false;
  for (nfds_t i = 0; i < n; i++)
    if ((fds[i].fd >= SIM_BASE && fds[i].fd < SIM_BASE + SIM_MAX) || k.socks.count(fds[i].fd)) anysim = true;
  if (n > 0 && !anysim) {
    // descriptors the model does not know: ask the real kernel, but never sleep in it -- a harness process that blocks in a real
    // poll() burns no CPU, so neither the CPU-time limit nor the virtual clock would ever end it
    int r = __real_poll(fds, n, 0);
    if (r != 0 || timeout == 0) return r;
    k.stuck = true;
    return 0;
  }
  k.polls++;
  if (!k.poll_eintr.empty()) {
    int e = k.poll_eintr.front();
    k.poll_eintr.pop_front();
    if (e) {
      errno = EINTR;
      return -1;
    }
  }
  int64_t start = k.now;
  int cnt = 0;
  for (int iter = 0; iter < 100000; iter++) {
    cnt = 0;
    for (nfds_t i = 0; i < n; i++) {
      Sock *s = k.get(fds[i].fd);
      short rev = 0;
      if (s && s->open) {
        short r = k.ready(*s);
        rev = (short)((r & fds[i].events & (POLLIN | POLLOUT)) | (r & (POLLERR | POLLHUP)));
      } else if (fds[i].fd >= 0)
        rev = POLLNVAL;  // polling a closed / unknown descriptor: the library asserts on this
      fds[i].revents = rev;
      if (rev) cnt++;
    }
    if (cnt || timeout == 0) break;
    int64_t wake = timeout < 0 ? INT64_MAX : start + (int64_t)timeout * 1000;
    int64_t nx = INT64_MAX;
    for (auto &kv : k.socks) nx = std::min(nx, k.next_change(kv.second));
    if (nx != INT64_MAX && nx <= wake) {
      k.now = std::max(k.now, nx);
      continue;
    }
    if (timeout > 0) {
      k.now = std::max(k.now, wake);
      break;
    }
    k.stuck = true;  // infinite timeout and nothing will ever change
    break;
  }
  return cnt;
}

ssize_t __wrap_recv(int fd, void *buf, size_t len, int flags) {
  using namespace simk;
  Kernel &k = K();
  Sock *s = k.get(fd);
  if (!s) return __real_recv(fd, buf, len, flags);
  if (!s->open) {
    errno = EBADF;
    return -1;
  }
  s->recv_calls++;
  if (k.on_recv) k.on_recv(fd, s->recv_calls);
  if (s->in_end) {
    const InItem &h = s->in.front();
    if (h.t == IN_EOF) return 0;
    errno = h.err;
    return -1;
  }
  if (s->in.empty() || s->in_at > k.now || s->sent.size() < s->in_hold_sent) {
    // on a descriptor in blocking mode this call would put the whole process to sleep (nothing has arrived): the harness is told,
    // and the call is answered with EAGAIN so that the run can go on
    if (s->blocking) k.would_block_calls++;
    errno = EAGAIN;
    return -1;
  }
  InItem &h = s->in.front();
  switch (h.t) {
  case IN_DATA: {
    size_t n = std::min(len, h.data.size() - h.off);
    if (n == 0 && len > 0) {  // empty segment: skip
      s->in.pop_front();
      k.arm_in(*s);
      errno = EAGAIN;
      return -1;
    }
    memcpy(buf, h.data.data() + h.off, n);
    s->delivered.append(h.data, h.off, n);
    h.off += n;
    if (h.off == h.data.size()) {
      int64_t t_prev = s->in_at;
      s->in.pop_front();
      k.arm_in(*s);
      // SO_RCVLOWAT > 1: later segments arrived while the earlier ones were waiting in the kernel -- hand over what has accumulated
      while (s->rcvlowat > 1 && n < len && !s->in.empty() && s->in.front().t == IN_DATA && t_prev + s->in.front().delay <= k.now) {
        InItem &g = s->in.front();
        t_prev += g.delay;
        size_t m2 = std::min(len - n, g.data.size() - g.off);
        memcpy((char *)buf + n, g.data.data() + g.off, m2);
        s->delivered.append(g.data, g.off, m2);
        g.off += m2;
        n += m2;
        if (g.off < g.data.size()) {
          s->in_at = t_prev;
          break;
        }
        s->in.pop_front();
        k.arm_in(*s);
      }
    }
    return (ssize_t)n;
  }
  case IN_EOF:
    s->in_end = true;
    return 0;
  case IN_ERR:
    s->in_end = true;
    errno = h.err;
    return -1;
  case IN_SPUR:
    s->in.pop_front();
    k.arm_in(*s);
    errno = (h.err == EWOULDBLOCK) ? EWOULDBLOCK : EAGAIN;
    return -1;
  case IN_EINTR:
    s->in.pop_front();
    k.arm_in(*s);
    errno = EINTR;
    return -1;
  }
  errno = EAGAIN;
  return -1;
}

ssize_t __wrap_send(int fd, const void *buf, size_t len, int flags) {
  using namespace simk;
  Kernel &k = K();
  Sock *s = k.get(fd);
  if (!s) return __real_send(fd, buf, len, flags);
  if (!s->open) {
    errno = EBADF;
    return -1;
  }
  s->send_calls++;
  auto fail = [&](int e) -> ssize_t {
    if (e == EPIPE && !(flags & MSG_NOSIGNAL)) {
      // a faithful kernel raises SIGPIPE unless it is ignored or blocked
      struct sigaction sa;
      sigset_t cur;
      sigaction(SIGPIPE, nullptr, &sa);
      sigprocmask(SIG_BLOCK, nullptr, &cur);
      if (sa.sa_handler != SIG_IGN && !sigismember(&cur, SIGPIPE)) {
        k.sigpipe_would_fire = true;
        raise(SIGPIPE);
      }
    }
    errno = e;
    return -1;
  };
  if (s->out_failed) return fail(s->out_err);
  // consistency with poll: once the kernel reports POLLHUP / POLLERR for this socket (an EOF / error item
  // flagged `hup` has arrived), writing cannot merely "would block" for ever -- it fails hard
  if (!s->in.empty() && (s->in_end || s->in_at <= k.now) && s->sent.size() >= s->in_hold_sent && s->in.front().hup &&
      (s->in.front().t == IN_EOF || s->in.front().t == IN_ERR)) {
    s->out_failed = true;
    s->out_err = s->in.front().t == IN_ERR ? s->in.front().err : EPIPE;
    return fail(s->out_err);
  }
  while (!s->out.empty() && s->out.front().t == OUT_BLOCK) {
    if (s->out_at > k.now) {
      errno = EAGAIN;
      return -1;
    }
    s->out.pop_front();
    k.arm_out(*s);
  }
  if (s->out.empty()) {
    s->sent.append((const char *)buf, len);
    return (ssize_t)len;
  }
  OutItem h = s->out.front();
  switch (h.t) {
  case OUT_ACCEPT: {
    size_t n = std::min(len, std::max<size_t>(h.n, 1));
    s->sent.append((const char *)buf, n);
    s->out.pop_front();
    k.arm_out(*s);
    return (ssize_t)n;
  }
  case OUT_EAGAIN:
    s->out.pop_front();
    k.arm_out(*s);
    errno = (h.err == EWOULDBLOCK) ? EWOULDBLOCK : EAGAIN;
    return -1;
  case OUT_EINTR:
    s->out.pop_front();
    k.arm_out(*s);
    errno = EINTR;
    return -1;
  case OUT_ERR:
    s->out_failed = true;
    s->out_err = h.err;
    return fail(h.err);
  }
  errno = EAGAIN;
  return -1;
}

int __wrap_socket(int dom, int type, int proto) {
  using namespace simk;
  Kernel &k = K();
  k.socket_calls.push_back(1);
  if (!k.socket_script.empty()) {
    int e = k.socket_script.front();
    k.socket_script.pop_front();
    if (e) {
      errno = e;
      return -1;
    }
  }
  (void)dom;
  (void)type;
  (void)proto;
  int fd;
  if (!k.socket_fd_script.empty()) {
    fd = k.create_at(k.socket_fd_script.front());
    k.socket_fd_script.pop_front();
  } else
    fd = k.create();
  if (k.on_socket) k.on_socket(fd);
  return fd;
}

int __wrap_close(int fd) {
  using namespace simk;
  Kernel &k = K();
  Sock *s = k.get(fd);
  if (!s) {
    if (fd >= SIM_BASE && fd < SIM_BASE + SIM_MAX) {
      k.closed_unknown.push_back(fd);
      errno = EBADF;
      return -1;
    }
    return __real_close(fd);
  }
  s->closes++;
  if (!s->open) {
    errno = EBADF;
    return -1;
  }
  s->open = false;
  return 0;
}

int __wrap_shutdown(int fd, int how) {
  using namespace simk;
  Kernel &k = K();
  Sock *s = k.get(fd);
  if (!s) return __real_shutdown(fd, how);
  if (!s->open) {
    errno = EBADF;
    return -1;
  }
  s->shutdowns++;
  if (how == SHUT_WR || how == SHUT_RDWR) {
    if (!s->out_failed) {
      s->out_failed = true;
      s->out_err = EPIPE;
    }
  }
  if (how == SHUT_RD || how == SHUT_RDWR) {
    if (!s->in_end) {
      s->in.clear();
      InItem e;
      e.t = IN_EOF;
      s->in.push_back(e);
      s->in_at = k.now;
    }
  }
  return 0;
}

int __wrap_bind(int fd, const struct sockaddr *a, socklen_t l) {
  using namespace simk;
  Kernel &k = K();
  Sock *s = k.get(fd);
  if (!s) return __real_bind(fd, a, l);
  if (k.bind_err) {
    errno = k.bind_err;
    return -1;
  }
  s->bound = true;
  return 0;
}

int __wrap_fcntl(int fd, int cmd, ...) {
  using namespace simk;
  va_list ap;
  va_start(ap, cmd);
  long arg = va_arg(ap, long);
  va_end(ap);
  if (K().get(fd)) return 0;
  return __real_fcntl(fd, cmd, arg);
}

int __wrap_setsockopt(int fd, int lvl, int opt, const void *v, socklen_t l) {
  using namespace simk;
  Sock *s = K().get(fd);
  if (!s) return __real_setsockopt(fd, lvl, opt, v, l);
  if (lvl == SOL_SOCKET && opt == SO_RCVLOWAT && v != nullptr && l >= (socklen_t)sizeof(int)) {
    int x;
    memcpy(&x, v, sizeof x);
    s->rcvlowat = x < 1 ? 1 : x;
    return 0;
  }
  s->nodelay = true;
  return 0;
}

int __wrap_getsockopt(int fd, int lvl, int opt, void *v, socklen_t *l) {
  using namespace simk;
  Sock *s = K().get(fd);
  if (!s) return __real_getsockopt(fd, lvl, opt, v, l);
  if (lvl == SOL_SOCKET && opt == SO_ERROR && *l >= sizeof(int)) {
    K().ready(*s);  // resolve a finished connect
    *(int *)v = s->so_error;
    s->so_error = 0;  // read-once
    *l = sizeof(int);
    return 0;
  }
  errno = ENOPROTOOPT;
  return -1;
}

int __wrap_connect(int fd, const struct sockaddr *a, socklen_t l) {
  using namespace simk;
  Kernel &k = K();
  Sock *s = k.get(fd);
  if (!s) return __real_connect(fd, a, l);
  int port = -1;
  if (a->sa_family == AF_INET && l >= sizeof(struct sockaddr_in)) port = ntohs(((const struct sockaddr_in *)a)->sin_port);
  if (a->sa_family == AF_INET6 && l >= sizeof(struct sockaddr_in6)) port = ntohs(((const struct sockaddr_in6 *)a)->sin6_port);
  k.connect_order.push_back(port);
  s->addr_port = port;
  AddrBehav b;
  auto it = k.addrs.find(port);
  if (it != k.addrs.end()) b = it->second;
  switch (b.kind) {
  case CB_FAIL_NOW:
    errno = b.err;
    return -1;
  case CB_OK_NOW:
    s->conn = 2;
    return 0;
  case CB_ASYNC_FAIL:
  case CB_EINTR_FAIL:
    s->conn = 1;
    s->conn_at = k.now + b.delay;
    s->conn_err = b.err;
    s->conn_errflags = b.errflags;
    errno = b.kind == CB_ASYNC_FAIL ? EINPROGRESS : EINTR;
    return -1;
  case CB_ASYNC_OK:
  case CB_EINTR_OK:
    s->conn = 1;
    s->conn_at = k.now + b.delay;
    s->conn_err = 0;
    errno = b.kind == CB_ASYNC_OK ? EINPROGRESS : EINTR;
    return -1;
  case CB_NEVER:
    s->conn = 1;
    s->conn_at = INT64_MAX;
    errno = EINPROGRESS;
    return -1;
  default:
    s->conn = 2;
    return 0;
  }
}

int __wrap_accept(int fd, struct sockaddr *a, socklen_t *l) {
  using namespace simk;
  Kernel &k = K();
  Sock *s = k.get(fd);
  if (!s) return __real_accept(fd, a, l);
  if (s->acc.empty() || s->acc_at > k.now) {
    errno = EAGAIN;
    return -1;
  }
  AccItem h = s->acc.front();
  switch (h.t) {
  case ACC_EAGAIN:
    s->acc.pop_front();
    k.arm_acc(*s);
    errno = EAGAIN;
    return -1;
  case ACC_ECONNABORTED:
    s->acc.pop_front();
    k.arm_acc(*s);
    errno = ECONNABORTED;
    return -1;
  case ACC_EINTR:
    s->acc.pop_front();
    k.arm_acc(*s);
    errno = EINTR;
    return -1;
  case ACC_NEW: {
    s->acc.pop_front();
    k.arm_acc(*s);
    int nfd = k.create();
    k.get(nfd)->conn = 2;
    k.accepted_fds.push_back(nfd);
    return nfd;
  }
  case ACC_ERR:
    // hard error: stays at the head (sticky)
    errno = h.err;
    return -1;
  }
  errno = EAGAIN;
  return -1;
}
}  // extern "C"

#define SIMK_WRAPS ["poll", "recv", "send", "connect", "accept", "getsockopt", "setsockopt", "socket", "close", "bind", "fcntl"]
