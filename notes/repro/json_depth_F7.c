#include <stdio.h>
#include <stdlib.h>
#include <string.h>
#include <stdint.h>
#include "json.h"
int main(int argc,char**argv){ size_t d=strtoul(argv[1],0,10); size_t n=d+6; uint8_t*b=malloc(n); memcpy(b,"{\"a\":",5); memset(b+5,'[',d); b[n-1]='1'; const uint8_t*r=json_find(b,b+n,"zz"); printf("depth %zu ok r-end=%td\n", d, r-(b+n)); return 0;}
