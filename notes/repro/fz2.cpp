#include <cstdint>
#include <cstddef>
#include <cstdlib>
#include <cstring>
#include <cstdio>
extern "C" {
#include "sock.h"
#include "sock_util.h"
#include "humansize.h"
#include "b64encode.h"
#include "hexify.h"
}
extern "C" int LLVMFuzzerTestOneInput(const uint8_t *data, size_t size){
  if (size < 1) return 0;
  int which = data[0] % 5; data++; size--;
  if (which == 0) { // sock_resolve on '[' or '/' forms
    if (size == 0 || memchr(data, 0, size)) return 0;
    if (data[0] != '[' && data[0] != '/') return 0;
    char *s = (char*)malloc(size+1); memcpy(s, data, size); s[size]=0;
    struct sock_addr **sas = sock_resolve(s);
    if (sas) { for (int i=0; sas[i]; i++){ char *p = sock_addr_prettyprint(sas[i]); if (p){ struct sock_addr **s2 = sock_resolve(p); if(!s2 || !s2[0] || sock_addr_cmp(sas[i], s2[0])) { fprintf(stderr,"roundtrip fail: %s -> %s\n", s, p); __builtin_trap(); } sock_addr_freelist(s2); free(p);} uint8_t *b; size_t bl; if(!sock_addr_serialize(sas[i], &b, &bl)){ struct sock_addr *d = sock_addr_deserialize(b, bl); if(!d || sock_addr_cmp(d, sas[i])) __builtin_trap(); sock_addr_free(d); free(b);} } sock_addr_freelist(sas); }
    free(s);
  } else if (which == 1) {
    uint8_t *b = (uint8_t*)malloc(size?size:1); memcpy(b, data, size); struct sock_addr *d = sock_addr_deserialize(b, size); if (d) sock_addr_free(d); free(b);
  } else if (which == 2) {
    if (memchr(data, 0, size)) return 0; char *s=(char*)malloc(size+1); memcpy(s,data,size); s[size]=0; uint64_t v; int r = humansize_parse(s,&v); if (r!=0 && r!=-1) __builtin_trap(); free(s);
  } else if (which == 3) {
    char *in=(char*)malloc(size?size:1); memcpy(in,data,size); uint8_t *out=(uint8_t*)malloc((size/4)*3+1); size_t ol=0; int r=b64decode(in,size,out,&ol); if(r==0 && ol>(size/4)*3) __builtin_trap(); free(in); free(out);
  } else {
    size_t len=size/2; if (memchr(data,0,size)) {} char *in=(char*)malloc(size+1); memcpy(in,data,size); in[size]=0; uint8_t *out=(uint8_t*)malloc(len?len:1); unhexify(in,out,len); free(in); free(out);
  }
  return 0;
}
