import os, socket, subprocess, random, sys, time, string
rnd=random.Random(int(sys.argv[1])); N=int(sys.argv[2]); AVOID_KNOWN = len(sys.argv)<4
path='/tmp/probe/h.sock'
TOK=string.ascii_letters+string.digits+"-_.!#$%&'*+^`|~"
VCH=''.join(chr(c) for c in range(0x21,0x7f))
def hx(b): return b.hex()
bad=0; stats={'chunked':0,'clen':0,'eof':0,'none':0,'interim':0}
for it in range(N):
    method=rnd.choice(['GET','GET','POST','HEAD','PUT'])
    status=rnd.choice([200,200,201,204,304,404,500,599,rnd.randrange(200,600)])
    hdrs=[]
    for _ in range(rnd.choice([0,0,1,2,5,20])):
        name=''.join(rnd.choice(TOK) for _ in range(rnd.randrange(1,12)))
        if name in ('Content-Length','Transfer-Encoding'): continue
        val=''.join(rnd.choice(VCH+'  \t:') for _ in range(rnd.choice([0,0,1,5,40]))).strip(' \t')
        hdrs.append((name,val))
    body=os.urandom(rnd.choice([0,1,2,10,100,4095,4096,4097,9000,70000]))
    bodiless = method=='HEAD' or status in (204,304)
    framing=rnd.choice(['chunked','clen','eof']) if not bodiless else rnd.choice(['none','clen','chunked'])
    raw=b''; exp_hdrs=list(hdrs); wire=b''
    if framing=='clen':
        v=('0'*rnd.choice([0,0,2]))+str(len(body)); exp_hdrs.insert(rnd.randrange(len(exp_hdrs)+1),('Content-Length',v))
        wire=b'' if bodiless else body
    elif framing=='chunked':
        exp_hdrs.insert(rnd.randrange(len(exp_hdrs)+1),('Transfer-Encoding','chunked'))
        if not bodiless:
            pos=0
            while pos<len(body):
                k=min(len(body)-pos, rnd.choice([1,2,5,16,100,4096,5000,len(body)]))
                sz=rnd.choice(['%x','%X','00%x'])%k + rnd.choice(['','',';ext=1',';a'])
                wire+=sz.encode()+b'\r\n'+body[pos:pos+k]+b'\r\n'; pos+=k
            wire+=rnd.choice([b'0',b'00',b'0;x=y'])+b'\r\n'+rnd.choice([b'',b'Trailer: t\r\n'])+b'\r\n'
    elif framing=='eof': wire=body
    def block(st,hs,reason):
        out=('HTTP/1.%d %d %s\r\n'%(rnd.choice([0,1,1]),st,reason)).encode()
        for n,v in hs: out+=n.encode()+b':'+rnd.choice([b'',b' ',b'  ',b'\t'])+v.encode()+rnd.choice([b'',b'',b' ',b'\t '])+b'\r\n'
        return out+b'\r\n'
    final=block(status,exp_hdrs,rnd.choice(['OK','','Not Found','a b  c']))
    interim=b''; ni=rnd.choice([0,0,0,1,2,4])
    for _ in range(ni):
        ih=[('X-I','y'*rnd.randrange(0,5))]*rnd.choice([0,1])
        b=block(rnd.choice([100,102,103,199]),ih,'Continue')
        if AVOID_KNOWN: b=b'HTTP/1.1 100 \r\n\r\n'

        interim+=b
    if ni: stats['interim']+=1
    stats[framing]+=1
    resp=interim+final+wire
    exp_body = b'' if bodiless else body
    limit=rnd.choice([len(exp_body),len(exp_body)+1,len(exp_body)+2,len(exp_body)+1000,2**40,2**64-1])
    if AVOID_KNOWN and framing=='chunked' and not bodiless and limit<len(exp_body)+2: limit=len(exp_body)+2
    rb=rnd.choice([0,0,5,5000]); rh=[('Host','h'),('X-Q','v:1')][:rnd.randrange(0,3)]
    try: os.unlink(path)
    except FileNotFoundError: pass
    ls=socket.socket(socket.AF_UNIX); ls.bind(path); ls.listen(1)
    args=['./hc',path,method,str(limit),str(rb),str(len(rh))]+[x for h in rh for x in h]
    p=subprocess.Popen(args,stdout=subprocess.PIPE,stderr=subprocess.PIPE)
    c,_=ls.accept(); ls.close()
    expreq=('%s /p/a-th HTTP/1.1\r\n'%method).encode()+b''.join(('%s: %s\r\n'%h).encode() for h in rh)+b'\r\n'+bytes((i*37+11)&0xff for i in range(rb))
    got=b''
    c.settimeout(5)
    while len(got)<len(expreq):
        d=c.recv(65536)
        if not d: break
        got+=d
    if got!=expreq: bad+=1; print("REQUEST MISMATCH",got[:80],expreq[:80])
    pos=0
    mode=rnd.choice(['one','bytes','rand','rand'])
    while pos<len(resp):
        k=len(resp) if mode=='one' else (1 if mode=='bytes' and len(resp)<300 else rnd.choice([1,2,3,7,50,1000,4096,10000]))
        try: c.sendall(resp[pos:pos+k])
        except BrokenPipeError: break
        pos+=k
        if rnd.random()<0.3: time.sleep(0.0005)
    c.close()
    out,err=p.communicate(timeout=20)
    lines=out.decode().split('\n')
    expl=['status %d'%status,'nheaders %d'%len(exp_hdrs)]+['h %s %s'%(hx(n.encode()),hx(v.encode())) for n,v in exp_hdrs]+['body %d %s'%(len(exp_body),hx(exp_body)),'rc 0','']
    if lines!=expl:
        bad+=1
        if bad<6:
            print("RESPONSE MISMATCH case",it,"framing",framing,"method",method,"status",status,"limit",limit,"bodylen",len(exp_body),"ninterim",ni,"rc",p.returncode)
            for a,b in zip(lines,expl):
                if a!=b: print("  got",a[:100],"\n  exp",b[:100]); break
            print("  stderr:",err.decode()[-300:].replace('\n',' | '))
print("cases",N,"bad",bad,stats)
