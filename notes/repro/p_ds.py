import ctypes, random, sys
L=ctypes.CDLL('/tmp/probe/so/libcp.so')
rnd=random.Random(int(sys.argv[1]) if len(sys.argv)>1 else 1)
vp=ctypes.c_void_p; sz=ctypes.c_size_t
L.ptrheap_init.restype=vp; L.ptrheap_create.restype=vp; L.ptrheap_getmin.restype=vp
CMP=ctypes.CFUNCTYPE(ctypes.c_int, vp, vp, vp); SRC=ctypes.CFUNCTYPE(None, vp, vp, sz)
bad=0
def heap_case():
    global bad
    keys={}   # id -> key   (pointer value = id*8+8)
    pos={}    # id -> last reported rc
    def cmpf(c,x,y):
        a=keys[(x-8)//8]; b=keys[(y-8)//8]; return (a>b)-(a<b)
    def srcf(c,p,rc): pos[(p-8)//8]=rc
    cf=CMP(cmpf); sf=SRC(srcf)
    nid=[0]
    def new(k): i=nid[0]; nid[0]+=1; keys[i]=k; return i
    krange=rnd.choice([3,10,1000])
    live=set()
    if rnd.random()<0.5:
        n=rnd.randrange(0,30); ids=[new(rnd.randrange(krange)) for _ in range(n)]
        arr=(vp*max(n,1))(*[i*8+8 for i in ids])
        H=L.ptrheap_create(cf,sf,None,sz(n),arr); live=set(ids)
    else: H=L.ptrheap_init(cf,sf,None)
    H=vp(H)
    def check(tag):
        global bad
        m=L.ptrheap_getmin(H)
        if not live:
            if m is not None: bad+=1; print("min not NULL on empty",tag)
            return
        if m is None: bad+=1; print("min NULL nonempty", tag); return
        mid=(m-8)//8
        if mid not in live or keys[mid]!=min(keys[i] for i in live): bad+=1; print("min wrong",tag, keys.get(mid), min(keys[i] for i in live))
        ps=sorted(pos[i] for i in live)
        if ps!=list(range(len(live))): bad+=1; print("handles not bijection",tag,ps)
    check('init')
    for step in range(rnd.randrange(1,80)):
        op=rnd.randrange(8)
        if op<=1 or not live:
            i=new(rnd.randrange(krange)); 
            if L.ptrheap_add(H, vp(i*8+8))!=0: print("add failed")
            live.add(i); tag='add'
        elif op==2: 
            m=L.ptrheap_getmin(H); L.ptrheap_deletemin(H); live.discard((m-8)//8); tag='delmin'
        elif op==3:
            i=rnd.choice(sorted(live)); L.ptrheap_delete(H, sz(pos[i])); live.discard(i); tag='delete'
        elif op==4:
            i=rnd.choice(sorted(live)); keys[i]+=rnd.randrange(0,krange); L.ptrheap_increase(H, sz(pos[i])); tag='increase'
        elif op==5:
            i=rnd.choice(sorted(live)); keys[i]-=rnd.randrange(0,krange); L.ptrheap_decrease(H, sz(pos[i])); tag='decrease'
        elif op==6:
            m=L.ptrheap_getmin(H); keys[(m-8)//8]+=rnd.randrange(0,krange); L.ptrheap_increasemin(H); tag='incmin'
        else: tag='nop'
        check(tag)
    # drain
    last=None
    while live:
        m=L.ptrheap_getmin(H); i=(m-8)//8
        if i not in live: bad+=1; print("drain ghost"); break
        if last is not None and keys[i]<last: bad+=1; print("drain order")
        last=keys[i]; L.ptrheap_deletemin(H); live.discard(i)
    if L.ptrheap_getmin(H) is not None: bad+=1; print("nonempty after drain")
    L.ptrheap_free(H)
for _ in range(3000): heap_case()
print("heap bad",bad)
# seqptrmap
L.seqptrmap_init.restype=vp; L.seqptrmap_get.restype=vp; L.seqptrmap_add.restype=ctypes.c_int64; L.seqptrmap_getmin.restype=ctypes.c_int64
bad=0
for case in range(2000):
    M=vp(L.seqptrmap_init()); model={}; nxt=0
    for step in range(rnd.randrange(1,120)):
        op=rnd.randrange(6)
        if op<=1:
            p=rnd.randrange(1,1<<40); n=L.seqptrmap_add(M, vp(p))
            if n!=nxt: bad+=1; print("add number",n,nxt)
            model[nxt]=p; nxt+=1
        elif op==2 and model:
            k=rnd.choice([min(model), rnd.choice(sorted(model)), max(model)]); L.seqptrmap_delete(M, ctypes.c_int64(k)); model.pop(k,None)
        elif op==3:
            k=rnd.choice([-1,-5,nxt,nxt+3,rnd.randrange(0,nxt+1)]); L.seqptrmap_delete(M, ctypes.c_int64(k)); model.pop(k,None)
        for k in [rnd.randrange(-2,nxt+2) for _ in range(3)]:
            g=L.seqptrmap_get(M, ctypes.c_int64(k))
            if g!=model.get(k): bad+=1; print("get mismatch",k,g,model.get(k))
        mn=L.seqptrmap_getmin(M)
        if mn!=(min(model) if model else -1): bad+=1; print("getmin mismatch",mn)
    L.seqptrmap_free(M)
print("seqptrmap bad",bad)
