#include <stdio.h>
#include <stdlib.h>
#include <string.h>
#include <unistd.h>
#include <sys/socket.h>
#include <sys/un.h>
#include <sys/wait.h>
#include "http.h"
#include "events.h"
#include "sock.h"
static int done;
static int cb(void *c, struct http_response *r){ (void)c; done=1; if(!r){printf("  callback: NULL response\n");return 0;} printf("  callback: status=%d nheaders=%zu bodylen=%zd body=%.*s\n", r->status, r->nheaders, (ssize_t)r->bodylen, r->body?(int)r->bodylen:0, r->body?(char*)r->body:""); free(r->body); return 0;}
static void run(const char *name, const char *resp, size_t maxr){
  const char *path="/tmp/probe/s.sock"; unlink(path);
  int ls=socket(AF_UNIX,SOCK_STREAM,0); struct sockaddr_un a; memset(&a,0,sizeof a); a.sun_family=AF_UNIX; strcpy(a.sun_path,path); bind(ls,(void*)&a,sizeof a); listen(ls,1);
  printf("%s (max=%zu)\n", name, maxr); fflush(stdout);
  pid_t p=fork(); if(!p){ int s=accept(ls,0,0); char b[4096]; read(s,b,sizeof b); write(s,resp,strlen(resp)); usleep(100000); close(s); _exit(0);} 
  pid_t q=fork(); if(!q){ struct sock_addr **sas=sock_resolve(path); struct http_request rq={"GET","/",0,NULL,0,NULL}; done=0; http_request(sas,&rq,maxr,cb,NULL); int rc=events_spin(&done); printf("  events_spin rc=%d\n",rc); fflush(stdout); _exit(0);} 
  int st; waitpid(q,&st,0); if(WIFSIGNALED(st)) printf("  CLIENT KILLED BY SIGNAL %d\n", WTERMSIG(st)); waitpid(p,&st,0); close(ls);
}
int main(){
 if (getenv("WS")) { run("whitespace-only chunk line", "HTTP/1.1 200 OK\r\nTransfer-Encoding: chunked\r\n\r\n \r\n", 100); return 0; }
 run("plain 200 clen", "HTTP/1.1 200 OK\r\nContent-Length: 5\r\n\r\nhello", 100);
 run("short 1xx then longer final", "HTTP/1.1 100 C\r\n\r\nHTTP/1.1 200 OK\r\nContent-Length: 5\r\n\r\nhello", 100);
 run("long 1xx then short final", "HTTP/1.1 100 Continue\r\nX-Long: aaaaaaaaaaaaaaaaaaaaaaaaaaaaaaaa\r\n\r\nHTTP/1.1 204 N\r\n\r\n", 100);
 run("chunked body below limit", "HTTP/1.1 200 OK\r\nTransfer-Encoding: chunked\r\n\r\n5\r\nhello\r\n0\r\n\r\n", 8);
 run("chunked body exactly at limit", "HTTP/1.1 200 OK\r\nTransfer-Encoding: chunked\r\n\r\n5\r\nhello\r\n0\r\n\r\n", 5);
 run("chunked body limit-1", "HTTP/1.1 200 OK\r\nTransfer-Encoding: chunked\r\n\r\n5\r\nhello\r\n0\r\n\r\n", 6);
 run("chunked body above limit", "HTTP/1.1 200 OK\r\nTransfer-Encoding: chunked\r\n\r\n5\r\nhello\r\n0\r\n\r\n", 4);
 return 0; }
