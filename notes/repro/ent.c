#include <stdint.h>
#include <stddef.h>
#include <string.h>
/* scripted OS entropy: byte i of call c = (c*131 + i*7 + 3) & 0xff ; fail when fail_at == call index */
int ent_calls = 0; int ent_fail_at = -1; size_t ent_lastlen = 0;
int entropy_read(uint8_t *buf, size_t len){ int c = ent_calls++; ent_lastlen = len; if (c == ent_fail_at) return -1; for (size_t i=0;i<len;i++) buf[i]=(uint8_t)(c*131+i*7+3); return 0; }
