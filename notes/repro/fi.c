#include <stdio.h>
#include <stdlib.h>
#include <string.h>
#include <stdint.h>
#include <unistd.h>
#include <sys/socket.h>
#include <sys/time.h>
#include "events.h"
#include "network.h"
#include "netbuf.h"
#include "http.h"
#include "sock.h"
#include "elasticarray.h"
#include "ptrheap.h"
#include "timerqueue.h"
#include "seqptrmap.h"
#include "elasticqueue.h"
void *__real_malloc(size_t); void *__real_realloc(void*,size_t); void *__real_calloc(size_t,size_t);
static int armed=0, count=0, failat=-1, persistent=0;
static int shouldfail(void){ if(!armed) return 0; count++; return persistent ? count>=failat : count==failat; }
void *__wrap_malloc(size_t n){ return shouldfail()?NULL:__real_malloc(n);} 
void *__wrap_realloc(void*p,size_t n){ return shouldfail()?NULL:__real_realloc(p,n);} 
void *__wrap_calloc(size_t a,size_t b){ return shouldfail()?NULL:__real_calloc(a,b);} 
static int cbi(void*c){ (*(int*)c)++; return 0; }
static int cbr(void*c, ssize_t n){ (void)n; (*(int*)c)++; return 0; }
static int cbw(void*c, int st){ (void)st; (*(int*)c)++; return 0; }
static int cbh(void*c, struct http_response*r){ (void)r; (*(int*)c)++; return 0; }
static int cmp(void*c,const void*a,const void*b){ (void)c; return (a>b)-(a<b);} 
#define ARM(k) do{ count=0; failat=(k); armed=1; }while(0)
#define DISARM() (armed=0)
int main(int argc,char**argv){ persistent = argc>1; int sv[2]; socketpair(AF_UNIX,SOCK_STREAM,0,sv); int fired=0; uint8_t buf[64]; struct timeval tv={100,0};
 for(int k=1;k<=12;k++){
  /* immediate */ ARM(k); void*c=events_immediate_register(cbi,&fired,3); DISARM(); if(c) events_immediate_cancel(c); 
  /* timer */ ARM(k); c=events_timer_register(cbi,&fired,&tv); DISARM(); if(c) events_timer_cancel(c);
  /* network */ ARM(k); int r=events_network_register(cbi,&fired,sv[0],EVENTS_NETWORK_OP_READ); DISARM(); if(r==0) events_network_cancel(sv[0],EVENTS_NETWORK_OP_READ); else { /* must be registrable again */ r=events_network_register(cbi,&fired,sv[0],EVENTS_NETWORK_OP_READ); if(r){printf("re-register failed k=%d\n",k);} else events_network_cancel(sv[0],EVENTS_NETWORK_OP_READ);} 
  /* network_read */ ARM(k); c=network_read(sv[0],buf,64,1,cbr,&fired); DISARM(); if(c) network_read_cancel(c); else { c=network_read(sv[0],buf,64,1,cbr,&fired); if(!c) printf("network_read retry failed k=%d\n",k); else network_read_cancel(c);} 
  /* network_write */ ARM(k); c=network_write(sv[0],buf,64,1,cbr,&fired); DISARM(); if(c) network_write_cancel(c);
  /* netbuf read */ ARM(k); struct netbuf_read*R=netbuf_read_init(sv[0]); int wr=-2; if(R){ wr=netbuf_read_wait(R,5000,cbw,&fired);} DISARM(); if(R){ if(wr==0) netbuf_read_wait_cancel(R); netbuf_read_free(R);} 
  /* netbuf write */ ARM(k); struct netbuf_write*W=netbuf_write_init(sv[0],NULL,NULL); if(W){ netbuf_write_write(W,buf,64); } DISARM(); if(W) netbuf_write_free(W);
  /* containers */ ARM(k); struct elasticarray*EA=elasticarray_init(3,8); if(EA){ elasticarray_append(EA,buf,4,8); elasticarray_resize(EA,100,8); void*b; size_t n; if(elasticarray_exportdup(EA,&b,&n,8)==0) free(b);} DISARM(); elasticarray_free(EA);
  ARM(k); struct ptrheap*H=ptrheap_init(cmp,NULL,NULL); if(H){ for(int i=0;i<20;i++) ptrheap_add(H,(void*)(intptr_t)(i+1)); } DISARM(); ptrheap_free(H);
  ARM(k); struct timerqueue*Q=timerqueue_init(); if(Q){ for(int i=0;i<20;i++) timerqueue_add(Q,&tv,buf);} DISARM(); timerqueue_free(Q);
  ARM(k); struct seqptrmap*M=seqptrmap_init(); if(M){ for(int i=0;i<20;i++) seqptrmap_add(M,buf);} DISARM(); seqptrmap_free(M);
  /* sock_resolve + http_request */ ARM(k); struct sock_addr**sas=sock_resolve("[127.0.0.1]:9"); DISARM(); if(!sas) sas=sock_resolve("[127.0.0.1]:9");
  struct http_header hh[1]={{"Host","x"}}; struct http_request rq={"GET","/",1,hh,0,NULL};
  ARM(k); c=http_request(sas,&rq,100,cbh,&fired); DISARM(); if(c) http_request_cancel(c); sock_addr_freelist(sas);
 }
 printf("done persistent=%d fired=%d\n",persistent,fired); return 0; }
