#include <stdio.h>
#include <stdlib.h>
#include <string.h>
#include "http.h"
#include "events.h"
#include "sock.h"
static int done;
static void hex(const void*p,size_t n){ const unsigned char*b=p; for(size_t i=0;i<n;i++) printf("%02x",b[i]); }
static int cb(void*c,struct http_response*r){ (void)c; done=1; if(!r){ printf("NULL\n"); return 0;} printf("status %d\nnheaders %zu\n",r->status,r->nheaders); for(size_t i=0;i<r->nheaders;i++){ printf("h "); hex(r->headers[i].header,strlen(r->headers[i].header)); printf(" "); hex(r->headers[i].value,strlen(r->headers[i].value)); printf("\n"); } if(r->bodylen==(size_t)-1) printf("body TOOBIG %d\n", r->body==NULL); else { printf("body %zu ",r->bodylen); hex(r->body,r->bodylen); printf("\n"); } free(r->body); return 0; }
int main(int argc,char**argv){ /* path method maxrlen reqbodylen nreqhdr [name value]... */
 struct sock_addr**sas=sock_resolve(argv[1]); size_t maxr=strtoull(argv[3],0,10); size_t bl=strtoull(argv[4],0,10); size_t nh=strtoull(argv[5],0,10);
 struct http_header hh[16]; for(size_t i=0;i<nh;i++){ hh[i].header=argv[6+2*i]; hh[i].value=argv[7+2*i]; }
 uint8_t*body=malloc(bl+1); for(size_t i=0;i<bl;i++) body[i]=(uint8_t)(i*37+11);
 struct http_request rq={argv[2],"/p/a-th",nh,hh,bl,bl?body:NULL};
 if(!http_request(sas,&rq,maxr,cb,NULL)){ printf("REQFAIL\n"); return 1; }
 int rc=events_spin(&done); printf("rc %d\n",rc); sock_addr_freelist(sas); free(body); return 0; }
