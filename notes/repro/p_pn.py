import ctypes, random, sys, errno
L=ctypes.CDLL('/tmp/probe/pnshim.so'); rnd=random.Random(int(sys.argv[1]))
WS=' \t\n\v\f\r'
DIG='0123456789abcdefghijklmnopqrstuvwxyz'
def ref_int(s, base, trailing):
    """C strto*max grammar. returns ('EINVAL',) or ('OK', value(int), rest_empty)"""
    i=0
    while i<len(s) and s[i] in WS: i+=1
    neg=False
    if i<len(s) and s[i] in '+-': neg = s[i]=='-'; i+=1
    b=base
    def dv(c):
        c=c.lower(); return DIG.index(c) if c in DIG else 99
    if (b in (0,16)) and s[i:i+2].lower()=='0x' and i+2<len(s) and dv(s[i+2])<16: i+=2; b=16
    elif b==0 and s[i:i+1]=='0': b=8
    elif b==0: b=10
    j=i; v=0
    while j<len(s) and dv(s[j])<b: v=v*b+dv(s[j]); j+=1
    if j==i: return ('EINVAL',)
    if not trailing and j!=len(s): return ('EINVAL',)
    return ('OK', -v if neg else v)
def numeral():
    r=rnd.random()
    sign=rnd.choice(['','','','-','+'])
    ws=''.join(rnd.choice(WS) for _ in range(rnd.choice([0,0,0,1,2])))
    lim=rnd.choice([0,1,2,127,128,255,256,32767,32768,65535,65536,2**31-1,2**31,2**32-1,2**32,2**63-1,2**63,2**64-1,2**64,2**64+1,10**25])
    v=max(0,lim+rnd.randrange(-2,3)) if r<0.7 else rnd.randrange(0,1000)
    form=rnd.choice(['d','d','x','X','o','z','b36'])
    if form=='d': body=str(v)
    elif form=='x': body='0x%x'%v
    elif form=='X': body='0X%X'%v
    elif form=='o': body='0%o'%v
    elif form=='z': body='000'+str(v)
    else:
        body=''; t=v
        while True:
            body=DIG[t%36]+body; t//=36
            if t==0: break
    tail=rnd.choice(['','','','',' ','x',',5','g','8','_'])
    return ws+sign+body+tail
UT={'u8':8,'u16':16,'u32':32,'u64':64,'usz':64,'umax':64}; ST={'i8':8,'i16':16,'i32':32,'i64':64,'imax':64}
bad=0; stats={}
def report(*a):
    global bad; bad+=1
    k=a[0]; stats[k]=stats.get(k,0)+1
    if stats[k]<=4: print(*a)
for it in range(int(sys.argv[2])):
    s=numeral(); base=rnd.choice([0,0,10,16,8,2,36,7]); tr=rnd.choice([0,1]); sb=s.encode()
    ref=ref_int(s,base,tr)
    # unsigned
    t=rnd.choice(list(UT)); bits=UT[t]; tmax=2**bits-1
    mode=rnd.choice(['nb','sb','ub'])
    out=ctypes.c_uint64(0); err=ctypes.c_int(0)
    if mode=='nb': r=getattr(L,'pn_%s_nb'%t)(sb,base,tr,ctypes.byref(out),ctypes.byref(err)); lo,hi=0,tmax
    elif mode=='sb':
        mn=rnd.choice([-200,-1,0,1,5,rnd.randrange(-2**63,2**63)]); mx=rnd.choice([-100,-1,0,10,255,256,2**63-1,rnd.randrange(-2**63,2**63)])
        r=getattr(L,'pn_%s_sb'%t)(sb,ctypes.c_int64(mn),ctypes.c_int64(mx),base,tr,ctypes.byref(out),ctypes.byref(err)); lo,hi=max(mn,0),min(mx,tmax)
    else:
        mn=rnd.choice([0,1,5,2**63,rnd.randrange(0,2**64)]); mx=rnd.choice([0,10,255,2**32-1,2**64-1,rnd.randrange(0,2**64)])
        r=getattr(L,'pn_%s_ub'%t)(sb,ctypes.c_uint64(mn),ctypes.c_uint64(mx),base,tr,ctypes.byref(out),ctypes.byref(err)); lo,hi=mn,min(mx,tmax)
    if ref[0]=='EINVAL': exp=('fail',errno.EINVAL)
    elif lo<=ref[1]<=hi: exp=('ok',ref[1])
    else: exp=('fail',errno.ERANGE)
    got=('ok',out.value) if r==0 else ('fail',err.value)
    if got!=exp:
        cls='unsigned-neg-wrap' if (ref[0]=='OK' and ref[1]<0) else 'unsigned-other'
        report(cls, t, mode, repr(s), base, tr, 'bounds',lo,hi,'exp',exp,'got',got)
    # signed
    t=rnd.choice(list(ST)); bits=ST[t]; tmin,tmax=-2**(bits-1),2**(bits-1)-1
    mn=rnd.choice([tmin,tmin+1,-1,0,1,rnd.randrange(tmin,tmax+1)]); mx=rnd.choice([tmax,tmax-1,0,-1,rnd.randrange(tmin,tmax+1)])
    out=ctypes.c_int64(0)
    r=getattr(L,'pn_%s_sb'%t)(sb,ctypes.c_int64(mn),ctypes.c_int64(mx),base,tr,ctypes.byref(out),ctypes.byref(err))
    if ref[0]=='EINVAL': exp=('fail',errno.EINVAL)
    elif mn<=ref[1]<=mx: exp=('ok',ref[1])
    else: exp=('fail',errno.ERANGE)
    got=('ok',out.value) if r==0 else ('fail',err.value)
    if got!=exp: report('signed', t, repr(s), base, tr, mn, mx, 'exp',exp,'got',got)
print("cases",sys.argv[2],"bad",bad,stats)
