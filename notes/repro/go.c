#include <stdio.h>
#include <string.h>
#include "getopt.h"
int main(int argc, char **argv){
  /* argv[1] = number of vectors N; then vectors separated by a literal "@@" element */
  int start = 1;
  while (start <= argc) {
    int end = start; while (end < argc && strcmp(argv[end], "@@")) end++;
    int ac = end - start + 1; char **av = argv + start - 1; /* av[0] = previous element as progname */
    const char *ch; optreset = 1;
    printf("[");
    while ((ch = GETOPT(ac, av)) != NULL) {
      GETOPT_SWITCH(ch) {
      GETOPT_OPT("-a"): printf("(a)"); break;
      GETOPT_OPTARG("-b"): printf("(b:%s)", optarg); break;
      GETOPT_OPT("--foo"): printf("(foo)"); break;
      GETOPT_OPTARG("--foobar"): printf("(foobar:%s)", optarg); break;
      GETOPT_OPTARG("--fo"): printf("(fo:%s)", optarg); break;
      GETOPT_OPT("-c"): printf("(c)"); break;
#ifdef WITH_MISSING
      GETOPT_MISSING_ARG: printf("(MISSING:%s)", ch); break;
#endif
      GETOPT_DEFAULT: printf("(DEFAULT:%s)", ch); break;
      }
    }
    printf("]optind=%d\n", optind);
    start = end + 1;
  }
  return 0;
}
