import ctypes, hashlib, hmac, random, os, sys
L=ctypes.CDLL('/tmp/probe/so/libcp.so')
rnd=random.Random(5)
class SHA256_CTX(ctypes.Structure): _fields_=[('state',ctypes.c_uint32*8),('count',ctypes.c_uint64),('buf',ctypes.c_uint8*64)]
class SHA1_CTX(ctypes.Structure): _fields_=[('state',ctypes.c_uint32*5),('count',ctypes.c_uint32*2),('buf',ctypes.c_uint8*64)]
class MD5_CTX(ctypes.Structure): _fields_=[('state',ctypes.c_uint32*4),('count',ctypes.c_uint32*2),('buf',ctypes.c_uint8*64)]
def hctx(C): 
    class H(ctypes.Structure): _fields_=[('i',C),('o',C)]
    return H
algs={'SHA256':(SHA256_CTX,32,hashlib.sha256),'SHA1':(SHA1_CTX,20,hashlib.sha1),'MD5':(MD5_CTX,16,hashlib.md5)}
def lens():
    r=rnd.random()
    if r<0.4: return rnd.randrange(0,200)
    if r<0.8: return rnd.choice([55,56,63,64,119,120,127,128,4095,4096])+rnd.randrange(-9,10)
    return rnd.randrange(0,20000)
def parts(n):
    cuts=sorted(rnd.randrange(0,n+1) for _ in range(rnd.randrange(0,6)))
    p=[0]+cuts+[n]; return [(p[i],p[i+1]) for i in range(len(p)-1)]
bad=0; N=int(sys.argv[1])
for it in range(N):
    name=rnd.choice(list(algs)); C,dl,ref=algs[name]
    m=os.urandom(lens())
    ctx=C(); getattr(L,'libcperciva_%s_Init'%name)(ctypes.byref(ctx))
    for a,b in parts(len(m)): getattr(L,'libcperciva_%s_Update'%name)(ctypes.byref(ctx), m[a:b], ctypes.c_size_t(b-a))
    out=(ctypes.c_uint8*dl)(); getattr(L,'libcperciva_%s_Final'%name)(out, ctypes.byref(ctx))
    if bytes(out)!=ref(m).digest(): bad+=1; print("DIGEST MISMATCH",name,len(m))
    if any(bytes(ctx)): bad+=1; print("ctx not zero",name)
    k=os.urandom(rnd.choice([0,1,20,32,63,64,65,80,128,129,300]))
    H=hctx(C); h=H(); getattr(L,'libcperciva_HMAC_%s_Init'%name)(ctypes.byref(h), k, ctypes.c_size_t(len(k)))
    for a,b in parts(len(m)): getattr(L,'libcperciva_HMAC_%s_Update'%name)(ctypes.byref(h), m[a:b], ctypes.c_size_t(b-a))
    getattr(L,'libcperciva_HMAC_%s_Final'%name)(out, ctypes.byref(h))
    if bytes(out)!=hmac.new(k,m,ref).digest(): bad+=1; print("HMAC MISMATCH",name,len(k),len(m))
    if any(bytes(h)): bad+=1; print("hmac ctx not zero",name)
    if it%20==0:
        P=os.urandom(rnd.randrange(0,100)); S=os.urandom(rnd.randrange(0,100)); c=rnd.randrange(1,30); dk=rnd.randrange(0,130)
        buf=(ctypes.c_uint8*max(dk,1))(); L.PBKDF2_SHA256(P,ctypes.c_size_t(len(P)),S,ctypes.c_size_t(len(S)),ctypes.c_uint64(c),buf,ctypes.c_size_t(dk))
        exp=hashlib.pbkdf2_hmac('sha256',P,S,c,dk) if dk>0 else b''
        if bytes(buf)[:dk]!=exp: bad+=1; print("PBKDF2 MISMATCH",len(P),len(S),c,dk)
print("cases",N,"bad",bad)
