import subprocess, random, sys
rnd=random.Random(int(sys.argv[1]))
SHORT={'a':0,'b':1,'c':0}; LONG={'--foo':0,'--foobar':1,'--fo':1}
TOK=['-a','-b','-c','-x','-ab','-ba','-abc','-acb','-bx','-a=b','-b=v','-xa','--foo','--foobar','--fo','--foo=v','--foobar=v','--foobar=','--fo=v','--f','--foob','--foobarx','--bar','--bar=1','-','--','','op','v','-ac','-ca','-cb']
def ref(av, miss):
    out=[]; i=1; n=len(av)
    def missing(name): out.append('(MISSING:%s)'%name if miss else '(DEFAULT:%s)'%name)
    while i<n:
        a=av[i]
        if a.startswith('--'):
            if a=='--': i+=1; break
            i+=1
            name,eq,val=a.partition('=')
            if name in LONG:
                if LONG[name]:
                    if eq: out.append('(%s:%s)'%(name[2:],val))
                    elif i<n: out.append('(%s:%s)'%(name[2:],av[i])); i+=1
                    else: missing(name)
                else:
                    if eq: out.append('(DEFAULT:%s)'%name)
                    else: out.append('(%s)'%name[2:])
            else: out.append('(DEFAULT:%s)'%a)
        elif a.startswith('-') and len(a)>1:
            j=1; i+=1
            while j<len(a):
                c=a[j]; j+=1
                if c in SHORT:
                    if SHORT[c]:
                        if j<len(a): out.append('(%s:%s)'%(c,a[j:])); j=len(a)
                        elif i<n: out.append('(%s:%s)'%(c,av[i])); i+=1
                        else: missing('-'+c)
                    else: out.append('(%s)'%c)
                else: out.append('(DEFAULT:-%s)'%c)
        else: break
    return '[%s]optind=%d'%(''.join(out), i)
bad=0; N=int(sys.argv[2])
for it in range(N):
    vecs=[[rnd.choice(TOK) for _ in range(rnd.randrange(0,7))] for _ in range(rnd.randrange(1,4))]
    args=[]
    for k,v in enumerate(vecs):
        if k: args.append('@@')
        args+=v
    for exe,miss in (('./go_nomiss',False),('./go_miss',True)):
        p=subprocess.run([exe]+args,capture_output=True,text=True)
        got=p.stdout.strip().split('\n') if p.returncode==0 else ['CRASH %d'%p.returncode]
        exp=[ref((['@@'] if k else [exe])+v, miss) for k,v in enumerate(vecs)]
        if got!=exp:
            bad+=1
            if bad<8: print("MISMATCH",exe,vecs,"\n exp",exp,"\n got",got, p.stderr[-200:])
print("cases",N,"bad",bad)
