#include <stdio.h>
#include <string.h>
#include <unistd.h>
#include <fcntl.h>
#include <sys/socket.h>
#include "netbuf.h"
#include "events.h"
static int done;
static int cb(void *c, int st){ struct netbuf_read *R=c; uint8_t *d; size_t n; netbuf_read_peek(R,&d,&n); printf("wait callback status=%d avail=%zu data=%.*s\n", st, n, (int)n, d); done=1; return 0; }
static int tick(void *c){ (void)c; return 0; }
int main(){ int sv[2]; socketpair(AF_UNIX,SOCK_STREAM,0,sv); fcntl(sv[0],F_SETFL,O_NONBLOCK);
 struct netbuf_read *R = netbuf_read_init(sv[0]);
 netbuf_read_wait(R, 4, cb, R);
 write(sv[1],"ab",2);
 /* run the loop once: the 2 bytes get pulled from the socket but the wait is not satisfied */
 events_immediate_register(tick,NULL,0); events_run(); events_immediate_register(tick,NULL,0); events_run(); 
 struct timeval tv={0,1000}; events_timer_register(tick,NULL,&tv); events_run();
 netbuf_read_wait_cancel(R);
 write(sv[1],"cdef",4);
 netbuf_read_wait(R, 4, cb, R);
 events_spin(&done);
 netbuf_read_free(R); return 0; }
