#include <stdio.h>
#include <string.h>
#include <stdint.h>
#include "json.h"
static void t(const char *doc, const char *key){ const uint8_t *b=(const uint8_t*)doc,*e=b+strlen(doc); const uint8_t *r=json_find(b,e,key); printf("%-40s key=%s -> %s\n", doc, key, r==e?"<end>":(const char*)r); }
int main(){ t("{\"a\":[1,2],\"k\":3}","k"); t("{\"a\":[1, 2],\"k\":3}","k"); t("{\"x\":{\"a\":1,\"b\":2},\"k\":3}","k"); t("{\"x\":{\"a\":1, \"b\":2},\"k\":3}","k"); t("{\"x\":1, \"k\":3}","k"); return 0;}
