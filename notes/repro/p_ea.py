import ctypes, random, os
L=ctypes.CDLL('/tmp/probe/so/libcp.so'); vp=ctypes.c_void_p; sz=ctypes.c_size_t
L.elasticarray_init.restype=vp; L.elasticarray_get.restype=vp; L.elasticarray_getsize.restype=sz
L.elasticqueue_init.restype=vp; L.elasticqueue_get.restype=vp; L.elasticqueue_getlen.restype=sz
rnd=random.Random(9); bad=0; SIZE_MAX=2**64-1
for case in range(3000):
    r0=rnd.choice([1,2,3,4,8,24]); n0=rnd.choice([0,0,1,5,100])
    EA=vp(L.elasticarray_init(sz(n0),sz(r0))); model=bytearray(b'\xEE'*(n0*r0)); known=[False]*(n0*r0)
    def fill_unknown():
        # write a pattern to uninitialised tail so the model knows it
        for i,k in enumerate(known):
            if not k:
                p=L.elasticarray_get(EA,sz(i),sz(1)); ctypes.memset(p,0xEE,1); model[i]=0xEE; known[i]=True
    fill_unknown()
    for step in range(rnd.randrange(1,60)):
        op=rnd.randrange(7); r=rnd.choice([1,2,3,4,8,24])
        if op<=1:
            n=rnd.choice([0,1,2,7,50,500]); d=os.urandom(n*r)
            if L.elasticarray_append(EA,d,sz(n),sz(r))!=0: bad+=1; print("append fail")
            model+=d; known+=[True]*len(d)
        elif op==2:
            n=rnd.choice([0,1,3,100, (SIZE_MAX//r+1) if r>1 else 3])
            rc=L.elasticarray_resize(EA,sz(n),sz(r))
            if n>SIZE_MAX//r:
                if rc==0: bad+=1; print("overflow resize accepted")
            else:
                if rc!=0: bad+=1; print("resize failed")
                ns=n*r
                if ns<len(model): del model[ns:]; del known[ns:]
                else: model+=b'\0'*(ns-len(model)); known+=[False]*(ns-len(known))
                fill_unknown()
        elif op==3:
            n=rnd.choice([0,1,2,10,10**6, (SIZE_MAX//r+1) if r>1 else 10**6]); L.elasticarray_shrink(EA,sz(n),sz(r))
            keep=0 if (n>SIZE_MAX//r or n*r>len(model)) else len(model)-n*r
            del model[keep:]; del known[keep:]
        elif op==4:
            if L.elasticarray_truncate(EA)!=0: bad+=1
        gs=L.elasticarray_getsize(EA,sz(r))
        if gs!=len(model)//r: bad+=1; print("getsize mismatch",gs,len(model),r)
        if model:
            got=ctypes.string_at(L.elasticarray_get(EA,sz(0),sz(1)), len(model))
            if got!=bytes(model): bad+=1; print("content mismatch at step",step); break
    # export
    buf=vp(); nrec=sz(); r=rnd.choice([1,2,3])
    if rnd.random()<0.5:
        L.elasticarray_exportdup(EA,ctypes.byref(buf),ctypes.byref(nrec),sz(r))
        if ctypes.string_at(buf,len(model))!=bytes(model) or nrec.value!=len(model)//r: bad+=1; print("exportdup mismatch")
        L.elasticarray_free(EA)
    else:
        L.elasticarray_export(EA,ctypes.byref(buf),ctypes.byref(nrec),sz(r))
        if (ctypes.string_at(buf,len(model)) if model else b'')!=bytes(model) or nrec.value!=len(model)//r: bad+=1; print("export mismatch")
print("ea bad",bad)
bad=0
for case in range(3000):
    r=rnd.choice([1,8,24]); Q=vp(L.elasticqueue_init(sz(r))); model=[]
    for step in range(rnd.randrange(1,150)):
        if rnd.random()<0.55:
            d=os.urandom(r); L.elasticqueue_add(Q,d); model.append(d)
        else:
            L.elasticqueue_delete(Q); model[:1]=[]
        if L.elasticqueue_getlen(Q)!=len(model): bad+=1; print("len mismatch")
        for pos in [0,len(model)-1,rnd.randrange(0,len(model)+2)]:
            p=L.elasticqueue_get(Q,sz(pos if pos>=0 else 0))
            pos=max(pos,0)
            if pos>=len(model):
                if p is not None: bad+=1; print("get beyond end non-NULL")
            elif ctypes.string_at(p,r)!=model[pos]: bad+=1; print("queue content mismatch")
    L.elasticqueue_free(Q)
print("eq bad",bad)
