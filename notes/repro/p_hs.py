import ctypes, random, re, sys
L=ctypes.CDLL('/tmp/probe/pnshim.so'); L.humansize.restype=ctypes.c_void_p
libc=ctypes.CDLL(None); rnd=random.Random(2); bad=0
M=2**64-1
for it in range(200000):
    d=rnd.choice([str(rnd.randrange(0,1000)), str(rnd.choice([M,M+1,M//1000,M//1000+1,M//10**18,M//10**18+1,18,19,18446,18447])+rnd.randrange(-1,2)), '0'*rnd.randrange(0,3)+str(rnd.randrange(10**rnd.randrange(0,22)))])
    s=d+rnd.choice(['',' ','  '])+rnd.choice(['','k','M','G','T','P','E','K','m','kk'])+rnd.choice(['','B','b','BB'])+rnd.choice(['','','',' ','x'])
    if rnd.random()<0.05: s=rnd.choice(['',' 5','B','k','-1','+1','5 k B'])
    out=ctypes.c_uint64(0); r=L.humansize_parse(s.encode(), ctypes.byref(out))
    m=re.fullmatch(r'([0-9]+) ?([kMGTPE]?)B?', s)
    exp=None
    if m:
        v=int(m.group(1))*1000**(' kMGTPE'.index(m.group(2)) if m.group(2) else 0)
        if v<=M: exp=v
    got=out.value if r==0 else None
    if got!=exp: bad+=1; print("parse mismatch",repr(s),exp,got)
# formatting: brute-force oracle
cands=[]
for n in range(1000): cands.append((n,"%d B"%n))
for i,p in enumerate('kMGTPE',1):
    for x in range(10,100): cands.append((x*1000**i//10, "%d.%d %sB"%(x//10,x%10,p)))
    for x in range(10,1000): cands.append((x*1000**i, "%d %sB"%(x,p)))
cands=[(v,s) for v,s in cands if v<=M]; cands.sort()
import bisect
vals=[v for v,_ in cands]
for it in range(200000):
    k=rnd.randrange(0,20); n=rnd.choice([10**k, 10**k-1, 10**k+1, 99*10**k//10, 999*10**max(k-2,0), M, M-1, rnd.randrange(0,M+1), rnd.randrange(0,10**rnd.randrange(1,20))])
    n=min(max(n,0),M)
    p=L.humansize(ctypes.c_uint64(n)); got=ctypes.string_at(p).decode(); libc.free(ctypes.c_void_p(p))
    i=bisect.bisect_right(vals,n)-1
    # among equal values prefer any string with that value
    okset={s for v,s in cands if v==vals[i]}
    if got not in okset: bad+=1; print("format mismatch",n,got,okset)
print("bad",bad)
