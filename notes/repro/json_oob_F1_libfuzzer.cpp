#include <cstdint>
#include <cstddef>
#include <cstdlib>
#include <cstring>
extern "C" {
#include "json.h"
}
extern "C" int LLVMFuzzerTestOneInput(const uint8_t *data, size_t size){
  if (size < 1) return 0;
  size_t klen = data[0] % 8; if (size < 1+klen) return 0;
  char key[9]; memcpy(key, data+1, klen); key[klen]=0; if (strlen(key)!=klen) return 0;
  size_t n = size-1-klen; uint8_t *buf = (uint8_t*)malloc(n?n:1); memcpy(buf, data+1+klen, n);
  const uint8_t *r = json_find(buf, buf+n, key);
  if (r < buf || r > buf+n) __builtin_trap();
  free(buf); return 0;
}
