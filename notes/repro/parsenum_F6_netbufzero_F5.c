#include <stdio.h>
#include <stdint.h>
#include <sys/socket.h>
#include "parsenum.h"
#include "netbuf.h"
#include "events.h"
int main(int argc, char **argv){
 size_t sz; uintmax_t um; uint64_t u64; uint32_t u32; int r;
 r = PARSENUM(&sz, "-1"); printf("size_t \"-1\" -> r=%d errno=%d val=%zu\n", r, errno, sz);
 r = PARSENUM(&um, "-5"); printf("uintmax \"-5\" -> r=%d errno=%d val=%ju\n", r, errno, um);
 r = PARSENUM(&u64, " -18446744073709551615", 0, 10); printf("u64 \"-1844..15\" in [0,10] -> r=%d errno=%d val=%ju\n", r, errno, (uintmax_t)u64);
 r = PARSENUM(&u32, "-4294967295"); printf("u32 \"-4294967295\" -> r=%d errno=%d val=%u\n", r, errno, u32);
 r = PARSENUM(&u32, "-18446744073709551615"); printf("u32 \"-18446744073709551615\" -> r=%d errno=%d val=%u\n", r, errno, u32);
 if (argc > 1) { int sv[2]; socketpair(AF_UNIX, SOCK_STREAM, 0, sv); struct netbuf_write *W = netbuf_write_init(sv[0], NULL, NULL); printf("zero write...\n"); fflush(stdout); r = netbuf_write_write(W, (const uint8_t*)"", 0); printf("returned %d\n", r);}
 return 0; }
