#include <poll.h>
#include <errno.h>
#include <stdio.h>
#include <stdint.h>
#include <string.h>
#include <sys/time.h>
#include <sys/socket.h>
#include "events.h"
#include "network.h"
/* virtual clock replaces util/monoclock.c */
static long long now_us = 1000000;
int monoclock_get(struct timeval *tv){ tv->tv_sec = now_us/1000000; tv->tv_usec = now_us%1000000; return 0; }
static int step = 0; static int npoll=0, nrecv=0;
int __wrap_poll(struct pollfd *fds, nfds_t n, int timeout){ npoll++; int r=0; for (nfds_t i=0;i<n;i++){ fds[i].revents = 0; if (fds[i].fd==50 && (fds[i].events&POLLIN)) { fds[i].revents=POLLIN; r++; } } if(!r && timeout>0) now_us += 1000LL*timeout; return r; }
ssize_t __wrap_recv(int fd, void *buf, size_t len, int flags){ nrecv++; (void)fd;(void)flags; switch(step++){ case 0: errno=EAGAIN; return -1; case 1: errno=EINTR; return -1; case 2: memcpy(buf,"ab",2); return 2; case 3: memcpy(buf,"cde", len<3?len:3); return len<3?len:3; default: return 0;} }
static int done; static int cb(void *c, ssize_t n){ printf("callback n=%zd buf=%.*s polls=%d recvs=%d\n", n, (int)(n>0?n:0), (char*)c, npoll, nrecv); done=1; return 0; }
int main(){ uint8_t buf[16]; network_read(50, buf, 16, 4, cb, buf); int rc = events_spin(&done); printf("spin rc=%d\n", rc); return 0; }
