import ctypes, os, random
L=ctypes.CDLL('/tmp/probe/so/libcp.so')
P=int("FFFFFFFFFFFFFFFFC90FDAA22168C234C4C6628B80DC1CD129024E088A67CC74020BBEA63B139B22514A08798E3404DDEF9519B3CD3A431B302B0A6DF25F14374FE1356D6D51C245E485B576625E7EC6F44C42E9A637ED6B0BFF5CB6F406B7EDEE386BFB5A899FA5AE9F24117C4B1FE649286651ECE45B3DC2007CB8A163BF0598DA48361C55D39A69163FA8FD24CF5F83655D23DCA3AD961C62F356208552BB9ED529077096966D670C354E4ABC9804F1746C08CA18217C32905E462E36CE3BE39E772C180E86039B2783A2EC07A28FB5C55DF06F4C52C9DE2BCBF6955817183995497CEA956AE515D2261898FA051015728E5A8AACAA68FFFFFFFFFFFFFFFF",16)
tab=(ctypes.c_uint8*256).in_dll(L,'crypto_dh_group14')
print("modulus table == RFC3526 (from memory):", int.from_bytes(bytes(tab),'big')==P)
rnd=random.Random(3); bad=0
def chk(priv, y=None):
    global bad
    e=(1<<258)+int.from_bytes(priv,'big')
    out=(ctypes.c_uint8*256)()
    if y is None:
        r=L.crypto_dh_generate_pub(out, priv); exp=pow(2,e,P)
    else:
        r=L.crypto_dh_compute(y.to_bytes(256,'big'), priv, out); exp=pow(y,e,P)
    if r!=0 or int.from_bytes(bytes(out),'big')!=exp: bad+=1; print("DH mismatch", r, priv.hex(), y)
    return bytes(out)
for priv in [bytes(32), b'\xff'*32, bytes(31)+b'\x01', b'\x00'*16+os.urandom(16)]+[os.urandom(32) for _ in range(40)]:
    chk(priv)
    for y in [0,1,2,P-1,P,P+1,(1<<2048)-1, rnd.randrange(1<<2048), rnd.randrange(1<<100)]:
        chk(priv,y)
for v in [0,1,P-1,P,P+1,(1<<2048)-1]+[rnd.randrange(1<<2048) for _ in range(200)]+[P-rnd.randrange(1,1<<64) for _ in range(50)]+[P+rnd.randrange(0,1<<64) for _ in range(50)]:
    v%=1<<2048
    r=L.crypto_dh_sanitycheck(v.to_bytes(256,'big'))
    if (r==0)!=(v<P): bad+=1; print("sanity mismatch",v)
print("bad",bad)
