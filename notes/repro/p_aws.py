import ctypes, os, random, hashlib, hmac, re, string
L=ctypes.CDLL('/tmp/probe/so/libcp.so')
L.aws_sign_s3_querystr.restype=ctypes.c_char_p
rnd=random.Random(11); UNR=string.ascii_letters+string.digits+'-._~'
def s(lo=0,hi=40): return ''.join(rnd.choice(UNR) for _ in range(rnd.randrange(lo,hi))).encode()
def hm(k,m): return hmac.new(k,m,hashlib.sha256).digest()
def sigv4(secret, date, datetime, region, service, creq):
    k=hm(b'AWS4'+secret,date); k=hm(k,region); k=hm(k,service); k=hm(k,b'aws4_request')
    sts=b'AWS4-HMAC-SHA256\n'+datetime+b'\n'+date+b'/'+region+b'/'+service+b'/aws4_request\n'+hashlib.sha256(creq).hexdigest().encode()
    return hmac.new(k,sts,hashlib.sha256).hexdigest().encode()
def canon(method, uri, query, headers, signed, payload_hash):
    ch=b''.join(n.lower()+b':'+v.strip()+b'\n' for n,v in sorted(headers,key=lambda h:h[0].lower()))
    return b'\n'.join([method,uri,query,ch,signed,payload_hash])
bad=0
for it in range(3000):
    kid,sec,region,bucket=s(),''.join(rnd.choice(string.printable[:94]) for _ in range(rnd.randrange(0,60))).encode().replace(b'%',b'p'),s(),s()
    method=rnd.choice([b'GET',b'PUT',b'HEAD',b'DELETE']); path=b'/'+b'/'.join(s(0,10) for _ in range(rnd.randrange(0,4)))
    body=rnd.choice([None,b'',os.urandom(rnd.randrange(1,3000))])
    h=ctypes.c_char_p(); d=ctypes.c_char_p(); a=ctypes.c_char_p()
    var=rnd.randrange(4)
    if var==0:
        r=L.aws_sign_s3_headers(kid,sec,region,method,bucket,path,body,ctypes.c_size_t(len(body) if body else 0),ctypes.byref(h),ctypes.byref(d),ctypes.byref(a))
        hdrs=[(b'Host',bucket+b'.s3.amazonaws.com'),(b'X-Amz-Date',d.value),(b'X-Amz-Content-SHA256',h.value)]; svc=b's3'; m,u=method,path
    elif var==1:
        svc=s(1,12)
        r=L.aws_sign_svc_headers(kid,sec,region,svc,body,ctypes.c_size_t(len(body) if body else 0),ctypes.byref(h),ctypes.byref(d),ctypes.byref(a))
        hdrs=[(b'Host',svc+b'.'+region+b'.amazonaws.com'),(b'X-Amz-Date',d.value),(b'X-Amz-Content-SHA256',h.value)]; m,u=b'POST',b'/'
    elif var==2:
        op=s(); svc=b'dynamodb'
        r=L.aws_sign_dynamodb_headers(kid,sec,region,op,body,ctypes.c_size_t(len(body) if body else 0),ctypes.byref(h),ctypes.byref(d),ctypes.byref(a))
        hdrs=[(b'Host',b'dynamodb.'+region+b'.amazonaws.com'),(b'X-Amz-Date',d.value),(b'X-Amz-Content-SHA256',h.value),(b'X-Amz-Target',b'DynamoDB_20120810.'+op)]; m,u=b'POST',b'/'
    else:
        exp=rnd.choice([0,1,-5,3600,2**31-1,-2**31])
        q=L.aws_sign_s3_querystr(kid,sec,region,method,bucket,path,ctypes.c_int(exp))
        params=dict(p.split(b'=',1) for p in q.split(b'&'))
        sig=params.pop(b'X-Amz-Signature'); cq=b'&'.join(k+b'='+v for k,v in sorted(params.items()))
        dt=params[b'X-Amz-Date']; cred=params[b'X-Amz-Credential'].split(b'%2F')
        ok = cred==[kid,dt[:8],region,b's3',b'aws4_request'] and params[b'X-Amz-Expires']==str(exp).encode()
        creq=canon(method,path,cq,[(b'host',bucket+b'.s3.amazonaws.com')],b'host',b'UNSIGNED-PAYLOAD')
        if not ok or sig!=sigv4(sec,dt[:8],dt,region,b's3',creq): bad+=1; print("querystr mismatch",q)
        continue
    if r!=0: bad+=1; print("rc",r); continue
    ph=hashlib.sha256(body or b'').hexdigest().encode()
    if h.value!=ph: bad+=1; print("content hash mismatch")
    mm=re.fullmatch(rb'AWS4-HMAC-SHA256 Credential=(.*),SignedHeaders=([a-z0-9;-]*),Signature=([0-9a-f]{64})', a.value)
    cred=mm.group(1).split(b'/'); signed=mm.group(2)
    hd=[(n,v) for n,v in hdrs if n.lower() in signed.split(b';')]
    creq=canon(m,u,b'',hd,signed,ph)
    if cred[-4:]!=[d.value[:8],region,svc,b'aws4_request'] or b'/'.join(cred[:-4])!=kid: bad+=1; print("scope mismatch",cred)
    if len(hd)!=len(hdrs): bad+=1; print("not all documented headers signed")
    if mm.group(3)!=sigv4(sec,d.value[:8],d.value,region,svc,creq): bad+=1; print("sig mismatch var",var)
print("bad",bad)
