#include <stdio.h>
#include <stdlib.h>
#include <string.h>
#include <stdint.h>
#include <malloc.h>
#include <openssl/crypto.h>
#include "crypto_dh.h"
static uint8_t PRIV[32], BLIND[32], pat[6][32]; static int npat=0; static long nfree=0, hits=0, nalloc=0;
int crypto_entropy_read(uint8_t *buf, size_t len){ memcpy(buf, BLIND, len<32?len:32); return 0; }
static void *m_(size_t n, const char *f, int l){ nalloc++; size_t *p = malloc(n+16); if(!p) return NULL; p[0]=n; return p+2; }
static void f_(void *q, const char *f, int l){ if(!q) return; size_t *p=(size_t*)q-2; size_t n=p[0]; nfree++; for(int k=0;k<npat;k++){ for(size_t i=0;i+16<=n;i++) if(!memcmp((uint8_t*)q+i, pat[k], 16)){ hits++; printf("  SECRET pattern %d found in freed block of %zu bytes (from %s:%d)\n", k, n, f, l); break; } } free(p); }
static void *r_(void *q, size_t n, const char *f, int l){ if(!q) return m_(n,f,l); if(n==0){ f_(q,f,l); return NULL;} size_t *p=(size_t*)q-2; size_t old=p[0]; void *nq=m_(n,f,l); memcpy(nq,q,old<n?old:n); f_(q,f,l); return nq; }
static void rev(uint8_t*d,const uint8_t*s){ for(int i=0;i<32;i++) d[i]=s[31-i]; }
int main(){ CRYPTO_set_mem_functions(m_, r_, f_);
 for(int i=0;i<32;i++){ PRIV[i]=0xA0+i; BLIND[i]=0x31+i*3; }
 memcpy(pat[0],PRIV,32); rev(pat[1],PRIV); memcpy(pat[2],BLIND,32); rev(pat[3],BLIND); npat=4;
 uint8_t pub[256], key[256];
 int r=crypto_dh_generate_pub(pub,PRIV); printf("generate_pub r=%d allocs=%ld frees=%ld hits=%ld\n", r,nalloc,nfree,hits);
 r=crypto_dh_compute(pub,PRIV,key); printf("compute r=%d allocs=%ld frees=%ld hits=%ld\n", r,nalloc,nfree,hits);
 return 0; }
