import ctypes, os, random, sys
full=ctypes.CDLL('/tmp/probe/var2/lib_full.so'); none=ctypes.CDLL('/tmp/probe/var2/lib_none.so')
C=ctypes.CDLL('libcrypto.so.3')
vp=ctypes.c_void_p; sz=ctypes.c_size_t
for L in (full,none):
    L.crypto_aes_key_expand.restype=vp; L.crypto_aesctr_init.restype=vp
C.EVP_CIPHER_CTX_new.restype=vp; C.EVP_aes_128_ctr.restype=vp; C.EVP_aes_256_ctr.restype=vp
def evp_ctr(key, nonce, data):
    ctx=vp(C.EVP_CIPHER_CTX_new()); ciph=vp(C.EVP_aes_128_ctr() if len(key)==16 else C.EVP_aes_256_ctr())
    iv=nonce.to_bytes(8,'big')+bytes(8)
    C.EVP_EncryptInit_ex(ctx,ciph,None,key,iv); out=ctypes.create_string_buffer(len(data)+32); ol=ctypes.c_int(0)
    C.EVP_EncryptUpdate(ctx,out,ctypes.byref(ol),data,ctypes.c_int(len(data))); C.EVP_CIPHER_CTX_free(ctx); return out.raw[:ol.value]
print("intrinsics full/none:", full.crypto_aes_can_use_intrinsics(), none.crypto_aes_can_use_intrinsics())
rnd=random.Random(int(sys.argv[1])); bad=0
for it in range(int(sys.argv[2])):
    key=os.urandom(rnd.choice([16,32])); nonce=rnd.choice([0,1,(1<<64)-1,rnd.randrange(1<<64)])
    n=rnd.choice([rnd.randrange(0,80), 4096+rnd.randrange(-40,40), 8192+rnd.randrange(-40,40), rnd.randrange(0,20000), (1<<20)+rnd.randrange(-40,40) if rnd.random()<0.1 else 100])
    data=os.urandom(n); ref=evp_ctr(key,nonce,data)
    for L,name in ((full,'aesni'),(none,'soft')):
        k=vp(L.crypto_aes_key_expand(key, sz(len(key)))); s=vp(L.crypto_aesctr_init(k, ctypes.c_uint64(nonce)))
        buf=ctypes.create_string_buffer(data, n if n else 1); pos=0; base=ctypes.addressof(buf)
        while pos<n:
            c=rnd.choice([0,1,3,15,16,17,31,32,33,48,100,4000,4096,n-pos]); c=min(c,n-pos)
            L.crypto_aesctr_stream(s, vp(base+pos), vp(base+pos), sz(c)); pos+=c
        if buf.raw[:n]!=ref: bad+=1; print("MISMATCH",name,len(key),nonce,n)
        L.crypto_aesctr_free(s); L.crypto_aes_key_free(k)
print("bad",bad)
