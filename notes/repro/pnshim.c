#include <stdint.h>
#include <stddef.h>
#include "parsenum.h"
#include "humansize.h"
/* out: value as uintmax/intmax bits or double; returns rc, *err = errno */
#define UFN(T,N) \
int pn_##N##_nb(const char*s,int base,int tr,uintmax_t*out,int*err){ T x=0; int r=PARSENUM_EX(&x,s,base,tr); *err=errno; *out=(uintmax_t)x; return r;} \
int pn_##N##_sb(const char*s,intmax_t mn,intmax_t mx,int base,int tr,uintmax_t*out,int*err){ T x=0; int r=PARSENUM_EX(&x,s,mn,mx,base,tr); *err=errno; *out=(uintmax_t)x; return r;} \
int pn_##N##_ub(const char*s,uintmax_t mn,uintmax_t mx,int base,int tr,uintmax_t*out,int*err){ T x=0; int r=PARSENUM_EX(&x,s,mn,mx,base,tr); *err=errno; *out=(uintmax_t)x; return r;}
#define SFN(T,N) \
int pn_##N##_sb(const char*s,intmax_t mn,intmax_t mx,int base,int tr,intmax_t*out,int*err){ T x=0; int r=PARSENUM_EX(&x,s,mn,mx,base,tr); *err=errno; *out=(intmax_t)x; return r;}
UFN(uint8_t,u8) UFN(uint16_t,u16) UFN(uint32_t,u32) UFN(uint64_t,u64) UFN(size_t,usz) UFN(uintmax_t,umax)
SFN(int8_t,i8) SFN(int16_t,i16) SFN(int32_t,i32) SFN(int64_t,i64) SFN(intmax_t,imax)
int pn_f64_nb(const char*s,int tr,double*out,int*err){ double x=0; int r=PARSENUM_EX(&x,s,0,tr); *err=errno; *out=x; return r;}
int pn_f64_b(const char*s,double mn,double mx,int tr,double*out,int*err){ double x=0; int r=PARSENUM_EX(&x,s,mn,mx,0,tr); *err=errno; *out=x; return r;}
int pn_f32_b(const char*s,double mn,double mx,int tr,double*out,int*err){ float x=0; int r=PARSENUM_EX(&x,s,mn,mx,0,tr); *err=errno; *out=x; return r;}
