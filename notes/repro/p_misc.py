import ctypes, os, random, base64, binascii, sys
L=ctypes.CDLL('/tmp/probe/so/libcp.so')
rnd=random.Random(7)
# CRC32C algebraic check
POLY=(1<<32)|0x1EDC6F41
def rem_bits(bits):
    r=0
    for b in bits:
        r=(r<<1)|b
        if r>>32: r^=POLY
    return r
class CRC(ctypes.Structure): _fields_=[('state',ctypes.c_uint32)]
bad=0
for it in range(3000):
    n=rnd.choice([0,1,2,3,4,5,7,8,9,15,16,17,31,64,100,rnd.randrange(0,600)])
    off=rnd.randrange(0,16)
    arena=ctypes.create_string_buffer(n+64)
    base=ctypes.addressof(arena); al=(16-base%16)%16+off
    data=os.urandom(n); ctypes.memmove(base+al, data, n)
    c=CRC(); L.CRC32C_Init(ctypes.byref(c))
    pos=0
    while pos<n:
        k=rnd.choice([1,3,7,8,9,16,n-pos]); k=min(k,n-pos)
        L.CRC32C_Update(ctypes.byref(c), ctypes.c_void_p(base+al+pos), ctypes.c_size_t(k)); pos+=k
    out=(ctypes.c_uint8*4)(); L.CRC32C_Final(out, ctypes.byref(c))
    bits=[1]
    for byte in data+bytes(out):
        for i in range(8): bits.append((byte>>i)&1)
    if rem_bits(bits)!=0: bad+=1; print("CRC mismatch n=%d off=%d"%(n,off))
print("crc cases 3000 bad",bad)
# b64 / hex
bad=0
for it in range(20000):
    x=os.urandom(rnd.randrange(0,50))
    out=ctypes.create_string_buffer(((len(x)+2)//3)*4+1)
    L.b64encode(x, out, ctypes.c_size_t(len(x)))
    if out.value!=base64.b64encode(x): bad+=1; print("b64enc mismatch",x)
    enc=bytearray(base64.b64encode(x))
    # mutate
    if enc and rnd.random()<0.7:
        for _ in range(rnd.randrange(1,3)):
            op=rnd.randrange(4); i=rnd.randrange(len(enc)) if enc else 0
            if op==0 and enc: enc[i]=rnd.choice(b'=AZaz09+/-_ \n\x00')
            elif op==1: enc.insert(i, rnd.choice(b'=A'))
            elif op==2 and enc: del enc[i]
            else: enc+=b'='
    enc=bytes(enc)
    dec=ctypes.create_string_buffer((len(enc)//4)*3+1); ol=ctypes.c_size_t(12345)
    r=L.b64decode(enc, ctypes.c_size_t(len(enc)), dec, ctypes.byref(ol))
    # oracle: canonical shape
    import re
    shape = len(enc)%4==0 and re.fullmatch(rb'[A-Za-z0-9+/]*={0,2}', enc) is not None
    if (r==0)!=shape: bad+=1; print("b64dec acceptance mismatch",enc,r)
    if r==0:
        exp=base64.b64decode(enc)
        if dec.raw[:ol.value]!=exp: bad+=1; print("b64dec value mismatch",enc)
    hx=ctypes.create_string_buffer(2*len(x)+1); L.hexify(x,hx,ctypes.c_size_t(len(x)))
    if hx.value!=binascii.hexlify(x): bad+=1; print("hexify mismatch")
    h2=bytes(rnd.choice([c, c^0x20]) if chr(c).isalpha() else c for c in hx.value)
    back=ctypes.create_string_buffer(len(x)+1); r=L.unhexify(h2, back, ctypes.c_size_t(len(x)))
    if r!=0 or back.raw[:len(x)]!=x: bad+=1; print("unhexify mismatch",h2)
print("codec cases 20000 bad",bad)
