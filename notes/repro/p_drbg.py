import ctypes, hmac, hashlib, random
L=ctypes.CDLL('/tmp/probe/drbg.so'); rnd=random.Random(4)
calls=ctypes.c_int.in_dll(L,'ent_calls'); failat=ctypes.c_int.in_dll(L,'ent_fail_at')
def H(k,m): return hmac.new(k,m,hashlib.sha256).digest()
class Model:
    def __init__(s): s.inst=False; s.ncalls=0
    def ent(s,n,fail):
        c=s.ncalls; s.ncalls+=1
        if fail: return None
        return bytes((c*131+i*7+3)&0xff for i in range(n))
    def update(s,data):
        s.K=H(s.K,s.V+b'\0'+data); s.V=H(s.K,s.V)
        if data: s.K=H(s.K,s.V+b'\1'+data); s.V=H(s.K,s.V)
    def read(s,n,failidx):
        out=b''
        if not s.inst:
            e=s.ent(48, failidx==s.ncalls)
            if e is None: return None,out
            s.K=b'\0'*32; s.V=b'\1'*32; s.rc=1; s.update(e); s.inst=True
        while n>0:
            if s.rc>256:
                e=s.ent(32, failidx==s.ncalls)
                if e is None: return None,out
                s.update(e); s.rc=1
            k=min(n,65536); t=b''
            while len(t)<k: s.V=H(s.K,s.V); t+=s.V
            out+=t[:k]; s.update(b''); s.rc+=1; n-=k
        return 0,out
m=Model(); bad=0; tot=0
for it in range(3000):
    n=rnd.choice([0,1,31,32,33,100,65535,65536,65537,200000]+[1]*40)
    fail = rnd.random()<0.03
    failat.value = calls.value if fail else -1   # fail the next entropy call, if one happens in this request
    buf=(ctypes.c_uint8*max(n,1))()
    r=L.crypto_entropy_read(buf, ctypes.c_size_t(n))
    er,eo=m.read(n, m.ncalls if fail else -1)
    tot+=1
    if (r==0)!=(er==0): bad+=1; print("rc mismatch",n,r,er)
    elif r==0 and bytes(buf)[:n]!=eo: bad+=1; print("output mismatch at request",it,n)
    if calls.value!=m.ncalls: bad+=1; print("entropy call count mismatch",calls.value,m.ncalls); break
print("requests",tot,"entropy calls",calls.value,"bad",bad)
