/* Throw-away prototype of the C04/C05 monitor: random programs, simulated poll + clock. */
#include <poll.h>
#include <errno.h>
#include <stdio.h>
#include <stdlib.h>
#include <string.h>
#include <stdint.h>
#include <sys/time.h>
#include "events.h"
#define NFD 6
#define MAXI 4000
static uint64_t rs; static unsigned rnd(void){ rs=rs*6364136223846793005ULL+1442695040888963407ULL; return (unsigned)(rs>>33); }
static unsigned R(unsigned n){ return rnd()%n; }
/* ---- clock ---- */
static long long now=5000000; static long long run_first_read=-1; static int in_run=0; static long long call_min_read=-1;
static int jitter_on=0;
int monoclock_get(struct timeval*tv){ if(jitter_on && R(10)==0) now+=R(3)?R(50):R(3000); tv->tv_sec=now/1000000; tv->tv_usec=now%1000000; if(in_run && run_first_read<0) run_first_read=now; if(call_min_read<0||now<call_min_read) call_min_read=now; return 0; }
/* ---- instances ---- */
enum {IMM,NET,TMR};
struct inst { int kind, live, fired, cancelled; int prio; long seq; int fd,dir; long long timeo, deadline; void*cookie; long regpoll; int rc; };
static struct inst I[MAXI]; static int ni=0; static long seqctr=0;
static int ready[NFD][2], hup[NFD]; static int netinst[NFD][2];
/* ---- poll history ---- */
static long npoll=0; static short last_rev[NFD]; static long last_poll_id=0; static int poll_reported[NFD][2]; /* bit reported by latest poll */
static long first_ready_poll[MAXI]; /* id of first poll after registration that reported dir bit */
static int viol=0; static long ncb=0, nrun=0, ncase=0, nchoice_multi=0;
#define V(...) do{ viol++; printf("VIOLATION case %ld: ",ncase); printf(__VA_ARGS__); printf("\n"); }while(0)
static long long min_deadline(void){ long long m=-1; for(int i=0;i<ni;i++) if(I[i].live&&I[i].kind==TMR&&(m<0||I[i].deadline<m)) m=I[i].deadline; return m; }
static int cb_in_run=0; static int first_cb_seen=0; static int stop_expected=0;
int __wrap_poll(struct pollfd*fds,nfds_t n,int timeout){
  npoll++; last_poll_id=npoll; memset(last_rev,0,sizeof last_rev); memset(poll_reported,0,sizeof poll_reported);
  /* C05(e): timeout bound */
  long long D=min_deadline();
  if(D>=0){ if(timeout<0) V("infinite poll timeout with timer pending"); else { long long t0=run_first_read>=0?run_first_read:now; long long d=D-t0; if(d<0)d=0; long long bound=(d+999)/1000; if(timeout>bound) V("poll timeout %d > bound %lld",timeout,bound);} }
  int cnt=0;
  for(int pass=0;pass<2;pass++){
    cnt=0;
    for(nfds_t i=0;i<n;i++){ int fd=fds[i].fd; short rev=0; if(fd<0||fd>=NFD){V("poll on unknown fd %d",fd);continue;} if((fds[i].events&POLLIN)&&ready[fd][0]) rev|=POLLIN; if((fds[i].events&POLLOUT)&&ready[fd][1]) rev|=POLLOUT; if(hup[fd]) rev|=(hup[fd]==1?POLLHUP:POLLERR); fds[i].revents=rev; if(rev) cnt++; }
    if(cnt||timeout==0||pass) break;
    /* block: advance clock */
    if(timeout>0) now+=1000LL*timeout; else { /* infinite: make something ready */ int did=0; for(int f=0;f<NFD&&!did;f++) for(int d=0;d<2&&!did;d++) if(netinst[f][d]>=0){ ready[f][d]=1; did=1; } if(!did){ V("infinite block with nothing registered"); return 0; } }
  }
  for(nfds_t i=0;i<n;i++){ int fd=fds[i].fd; if(fd<0||fd>=NFD) continue; last_rev[fd]=fds[i].revents; for(int d=0;d<2;d++){ int bit=d?POLLOUT:POLLIN; if(fds[i].revents&bit){ poll_reported[fd][d]=1; int k=netinst[fd][d]; if(k>=0&&first_ready_poll[k]==0) first_ready_poll[k]=npoll; } } }
  return cnt;
}
static int callback(void*c);
static void do_register(int kind){
  if(ni>=MAXI-1) return; struct inst*x=&I[ni]; memset(x,0,sizeof*x); x->kind=kind; x->rc=(R(25)==0)?(int)(1+R(5)):0;
  if(kind==IMM){ x->prio=R(4)?(int)R(32):(int)R(3); x->cookie=events_immediate_register(callback,x,x->prio); if(!x->cookie){V("imm register failed");return;} }
  else if(kind==NET){ x->fd=R(NFD); x->dir=R(2); int r=events_network_register(callback,x,x->fd,x->dir); if(netinst[x->fd][x->dir]>=0){ if(r!=-1||errno!=EEXIST) V("dup register r=%d errno=%d",r,errno); return; } if(r){V("net register failed");return;} netinst[x->fd][x->dir]=ni; x->regpoll=npoll; first_ready_poll[ni]=0; }
  else { static const long long T[]={0,1,999,1000,1500,2000,10000,250000,3000000}; x->timeo=T[R(9)]; struct timeval tv={x->timeo/1000000,x->timeo%1000000}; call_min_read=-1; x->cookie=events_timer_register(callback,x,&tv); if(!x->cookie){V("timer register failed");return;} x->deadline=call_min_read+x->timeo; }
  x->live=1; x->seq=seqctr++; ni++;
}
static void do_cancel(void){ if(!ni) return; int s=R(ni); for(int t=0;t<ni;t++){ struct inst*x=&I[(s+t)%ni]; if(!x->live) continue; if(x->kind==IMM) events_immediate_cancel(x->cookie); else if(x->kind==TMR) events_timer_cancel(x->cookie); else { if(events_network_cancel(x->fd,x->dir)) V("net cancel failed"); netinst[x->fd][x->dir]=-1; } x->live=0; x->cancelled=1; return; } }
static void do_reset(void){ for(int t=0;t<ni;t++){ struct inst*x=&I[(R(ni)+t)%ni]; if(x->live&&x->kind==TMR){ call_min_read=-1; if(events_timer_reset(x->cookie)) V("reset failed"); x->deadline=call_min_read+x->timeo; return; } } }
static void world(void){ unsigned r=R(10); if(r<5){ ready[R(NFD)][R(2)]=R(3)!=0; } else if(r<6){ hup[R(NFD)]=R(3); } else if(r<8){ now+=R(2)?R(2000):R(400000); } }
static void check_choice(struct inst*x){
  /* C05 (a)(b)(c) */
  int imm_pending=0; struct inst*best=NULL; for(int i=0;i<ni;i++){ struct inst*y=&I[i]; if(y->live&&y->kind==IMM){ imm_pending=1; if(!best||y->prio<best->prio||(y->prio==best->prio&&y->seq<best->seq)) best=y; } }
  int net_cand=0; for(int f=0;f<NFD;f++) for(int d=0;d<2;d++){ int k=netinst[f][d]; if(k>=0&&I[k].live&&I[k].regpoll<last_poll_id&&(poll_reported[f][d]||(last_rev[f]&(POLLHUP|POLLERR)))) net_cand=1; }
  int kinds=(imm_pending?1:0)+(net_cand?1:0); for(int i=0;i<ni;i++) if(I[i].live&&I[i].kind==TMR&&I[i].deadline<=now){kinds++;break;} if(kinds>=2) nchoice_multi++;
  if(imm_pending){ if(x!=best) V("immediate ordering: ran kind %d prio %d seq %ld but best prio %d seq %ld",x->kind,x->prio,x->seq,best->prio,best->seq); return; }
  if(net_cand){ if(x->kind!=NET) V("timer ran while a reported-ready socket was pending"); return; }
  if(x->kind==TMR){ long long m=min_deadline(); if(x->deadline!=m) V("timer order: ran deadline %lld but min %lld",x->deadline,m); }
}
static int callback(void*c){ struct inst*x=c; ncb++;
  if(stop_expected) V("callback after non-zero rc / interrupt in same run");
  if(!x->live||x->fired||x->cancelled) { V("callback for dead instance (live=%d fired=%d cancelled=%d kind=%d)",x->live,x->fired,x->cancelled,x->kind); return 0; }
  check_choice(x);
  if(x->kind==NET){ int ok=(first_ready_poll[x-I]>0)||(last_rev[x->fd]&(POLLHUP|POLLERR)); if(!ok) V("net callback without readiness report fd=%d dir=%d",x->fd,x->dir); netinst[x->fd][x->dir]=-1; }
  if(x->kind==TMR&&now<x->deadline) V("timer fired early: now=%lld deadline=%lld",now,x->deadline);
  x->live=0; x->fired=1; first_cb_seen=1;
  int na=R(4); for(int a=0;a<na;a++){ unsigned r=R(12); if(r<5) do_register(R(3)); else if(r<8) do_cancel(); else if(r<9) do_reset(); else if(r<11){ ready[R(NFD)][R(2)]=0; } else { events_interrupt(); stop_expected=1; x->rc=0; } }
  if(x->rc) stop_expected=1;
  return x->rc; }
static void run_once(void){ nrun++; in_run=1; run_first_read=-1; first_cb_seen=0; stop_expected=0; long cb0=ncb;
  int runnable=0; for(int i=0;i<ni;i++){ struct inst*y=&I[i]; if(!y->live) continue; if(y->kind==IMM) runnable=1; if(y->kind==TMR&&y->deadline<=now) runnable=1; if(y->kind==NET&&(ready[y->fd][y->dir]||hup[y->fd])) runnable=1; }
  int pending=0; for(int i=0;i<ni;i++) if(I[i].live) pending=1; if(!pending){in_run=0;return;}
  int rc=events_run(); in_run=0;
  if(runnable&&ncb==cb0) V("run with something runnable ran nothing");
  (void)rc; }
int main(int argc,char**argv){ long N=atol(argv[1]); rs=strtoull(argv[2],0,10); 
  for(ncase=0;ncase<N&&viol<5;ncase++){ ni=0; memset(ready,0,sizeof ready); memset(hup,0,sizeof hup); memset(netinst,-1,sizeof netinst); jitter_on=R(3)==0;
    int steps=5+R(60); for(int s=0;s<steps;s++){ unsigned r=R(20); if(r<7) do_register(R(3)); else if(r<9) do_cancel(); else if(r<10) do_reset(); else if(r<14) world(); else run_once(); }
    /* drain: cancel everything */ for(int i=0;i<ni;i++){ struct inst*x=&I[i]; if(!x->live) continue; if(x->kind==IMM) events_immediate_cancel(x->cookie); else if(x->kind==TMR) events_timer_cancel(x->cookie); else { events_network_cancel(x->fd,x->dir);} x->live=0; }
  }
  printf("cases=%ld runs=%ld callbacks=%ld polls=%ld multi-kind choice points=%ld violations=%d\n",ncase,nrun,ncb,npoll,nchoice_multi,viol); return viol!=0; }
