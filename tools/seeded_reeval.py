#!/usr/bin/env python3
"""Record a second evaluation of a seeded change after a check was strengthened.
usage: tools/seeded_reeval.py <seeded id> <eval json of the re-run> "<why it was missed>" "<what was strengthened>" """
import json
import os
import sys

VERIF = os.path.dirname(os.path.dirname(os.path.abspath(__file__)))
sid, evp, why, what = sys.argv[1:5]
mp = os.path.join(VERIF, "seeded", sid, "meta.json")
m = json.load(open(mp))
ev = json.load(open(evp))
if "first_evaluation" not in m:
    m["first_evaluation"] = {k: dict(caught=v["caught"], wall_s=v["wall_s"]) for k, v in m["checks"].items()}
for k, v in ev["checks"].items():
    m["checks"][k] = dict(caught=v["caught"], wall_s=v["wall_s"], first_detail=v["detail"])
m.setdefault("history", [])
m["history"] += ["first evaluation: NOT caught by %s -- %s" % (", ".join(sorted(m["first_evaluation"])), why), "strengthening: " + what,
                 "second evaluation (tools/seeded.py seeded/%s %s --no-suite%s): %s" % (
                     sid, m["property"], "" if list(ev["checks"]) == [m["property"]] else " --checks " + ",".join(ev["checks"]),
                     "; ".join("%s %s in %d s" % (k, "caught" if v["caught"] else "NOT caught", v["wall_s"]) for k, v in ev["checks"].items()))]
json.dump(m, open(mp, "w"), indent=1)
print(sid, {k: v["caught"] for k, v in m["checks"].items()})
