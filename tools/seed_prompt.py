#!/usr/bin/env python3
"""Write the prompt for an independent "seeding" sub-agent.
usage: tools/seed_prompt.py <tag> <worktree> <round-instructions-file> Cnn [Cnn ...]  > prompt
The prompt contains ONLY: generic instructions, the text of the listed properties (title, statement, quantifier, why tests cannot, anchor files)
and, per property, one-line descriptions of what it took for EARLIER seeded changes to manifest (taken from the earlier sub-agents' own
notes), so that a new round looks elsewhere.  Nothing about /verif's checks goes in."""
import glob
import json
import os
import sys

VERIF = os.path.dirname(os.path.dirname(os.path.abspath(__file__)))
tag, wt, roundfile, pids = sys.argv[1], sys.argv[2], sys.argv[3], sys.argv[4:]
props = {}
for l in open(os.path.join(VERIF, "properties.jsonl")):
    j = json.loads(l)
    props[j["id"]] = j
head = open(os.path.join(VERIF, "tools", "seed_prompt_head.txt")).read().replace("@WT@", wt).replace("@WORK@", "/tmp/seedwork_" + tag)
out = [head, open(roundfile).read().strip(), "", "PROPERTIES:", ""]
for pid in pids:
    p = props[pid]
    out += ["-----", "Property %s: %s" % (pid, p["title"]), "", "Statement: " + p["statement"], "",
            "Quantified over (%s): %s" % (", ".join(p["quantifier"]["over"]), p["quantifier"]["text"]), "",
            "Why the existing tests cannot settle it: " + p["why_tests_cant"], "", "Code it is anchored in: " + ", ".join(p["anchors"]["files"]), ""]
    tried = []
    for m in sorted(glob.glob(os.path.join(VERIF, "seeded", pid + "_*", "meta.json"))):
        n = " ".join(json.load(open(m)).get("needs_to_manifest", "").split())
        if n:
            tried.append("  - " + (n[:260] + (" ..." if len(n) > 260 else "")))
    if tried:
        out += ["Changes of the following kinds have ALREADY been produced for %s by someone else -- do NOT repeat them or close variants; look for different code sites and different kinds of trigger:" % pid] + tried + [""]
print("\n".join(out))
