#!/usr/bin/env python3
"""Import a confirmed seeded change into /verif/seeded/<id>/ (patch.diff, demonstration, meta.json).
usage: tools/seeded_import.py <source dir> <eval json from tools/seeded.py> <needs: one-line description of what it takes to manifest> [name]"""
import json
import os
import shutil
import sys

VERIF = os.path.dirname(os.path.dirname(os.path.abspath(__file__)))
src, ev, needs = sys.argv[1], json.load(open(sys.argv[2])), sys.argv[3]
ok = ev.get("demo_original_passes") and ev.get("patch_applies") and ev.get("build_changed") and ev.get("demo_changed_fails") and ev.get("suite_passes_with_change")
if not ok:
    print("NOT CONFIRMED, not imported:", src)
    sys.exit(1)
name = sys.argv[4] if len(sys.argv) > 4 else os.path.basename(src.rstrip("/"))
dst = os.path.join(VERIF, "seeded", name)
os.makedirs(dst, exist_ok=True)
def is_text(path):
    try:
        b = open(path, "rb").read(200000)
    except OSError:
        return False
    return b"\0" not in b and not b.startswith(b"\x7fELF") and os.path.getsize(path) < 200000


# the patch, the demonstration and whatever source files the demonstration needs (no binaries, no build output)
for f in sorted(os.listdir(src)):
    fp = os.path.join(src, f)
    if os.path.isfile(fp) and is_text(fp) and not f.endswith((".o", ".log", ".out")):
        shutil.copy(fp, dst)
# files of the parent directory which the demonstration refers to as ../name: bring them in and point the script at the copy
dsh = os.path.join(dst, "demo.sh")
if os.path.exists(dsh):
    import re
    t = open(dsh).read()
    for nm in set(re.findall(r"\.\./([A-Za-z0-9_.-]+)", t)):
        pp = os.path.join(os.path.dirname(src.rstrip("/")), nm)
        if os.path.isfile(pp) and is_text(pp):
            shutil.copy(pp, dst)
            t = t.replace("../" + nm, "./" + nm)
    open(dsh, "w").write(t)
# shared demo helpers, if any
for extra in ("common",):
    p = os.path.join(os.path.dirname(src.rstrip("/")), extra)
    if os.path.isdir(p) and "common" in open(os.path.join(src, "demo.sh")).read():
        shutil.copytree(p, os.path.join(dst, "common"), dirs_exist_ok=True)
meta = dict(
    id=name, property=ev["property"], author="independent sub-agent (given only the property text and a scratch worktree)",
    needs_to_manifest=needs,
    confirmed=dict(demo_passes_on_original=ev["demo_original_passes"], patch_applies=ev["patch_applies"], builds_without_new_warnings=not ev.get("new_warnings"),
                   demo_fails_with_change=ev["demo_changed_fails"], repository_suite_passes_with_change=ev["suite_passes_with_change"]),
    what_was_run="tools/seeded.py %s %s  (scratch copy of /repo under /tmp: demo on original, git apply, make all, demo on changed tree, make test, then VERIF_REPO=<scratch> ./check <id> --tier quick)" % (src, ev["property"]),
    checks={k: dict(caught=v["caught"], wall_s=v["wall_s"], first_detail=v["detail"]) for k, v in ev.get("checks", {}).items()},
)
json.dump(meta, open(os.path.join(dst, "meta.json"), "w"), indent=1)
print("imported", dst, {k: v["caught"] for k, v in ev.get("checks", {}).items()})
