#!/usr/bin/env python3
"""Sensitivity testing: apply each mutation of a list to a scratch copy of /repo and
run a check against it (VERIF_REPO).  Never touches /repo.  Scratch copies live under
/tmp and are removed as soon as the run finishes.

usage: tools/mutate.py Cnn [--tier quick] [--jobs 2] [--only name,...] [--file props/Cnn/mutations.py]

A mutations file defines MUTATIONS = [dict(name=..., file="events/events_network.c",
old="...", new="..."[, count=1]), ...]  (exact text replacement).
Writes props/Cnn/SENSITIVITY.md (table) and prints one line per mutation.
"""
import argparse
import importlib.util
import os
import shutil
import subprocess
import sys
import time
from concurrent.futures import ThreadPoolExecutor

VERIF = os.path.dirname(os.path.dirname(os.path.abspath(__file__)))


def run_one(pid, m, tier, seed):
    tag = "%s_%s_%d" % (pid, "".join(ch if ch.isalnum() else "_" for ch in m["name"])[:40], os.getpid())
    scratch = "/tmp/mut_" + tag
    shutil.rmtree(scratch, ignore_errors=True)
    shutil.copytree("/repo", scratch, symlinks=True, ignore=shutil.ignore_patterns(".git", "*.o", "*.a", "tests-output"))
    try:
        p = os.path.join(scratch, m["file"])
        if "from_commit" in m:
            # whole file as of an earlier commit (used to check that a repaired defect is still detected)
            s = subprocess.run(["git", "-C", "/repo", "show", "%s:%s" % (m["from_commit"], m["file"])], capture_output=True, text=True).stdout
            if not s:
                return dict(name=m["name"], status="NOT-APPLICABLE (commit/file not found)", wall=0)
        else:
            s = open(p).read()
            if s.count(m["old"]) < 1:
                return dict(name=m["name"], status="NOT-APPLICABLE (pattern not found)", wall=0)
            s = s.replace(m["old"], m["new"], m.get("count", 1))
        open(p, "w").write(s)
        env = dict(os.environ, VERIF_REPO=scratch, VERIF_SEED=str(seed))
        t = time.time()
        r = subprocess.run([os.path.join(VERIF, "check"), pid, "--tier", tier], env=env, capture_output=True, text=True, errors="replace")
        wall = time.time() - t
        out = r.stdout + r.stderr
        if r.returncode == 1 and "VIOLATION property=" in out:
            det = [l for l in out.split("\n") if l.strip().startswith("detail:")]
            return dict(name=m["name"], status="caught", wall=wall, detail=(det[0].strip()[:160] if det else ""))
        if r.returncode == 0:
            return dict(name=m["name"], status="MISSED", wall=wall, detail="")
        return dict(name=m["name"], status="ERROR rc=%d" % r.returncode, wall=wall, detail=out[-300:].replace("\n", " | "))
    finally:
        shutil.rmtree(scratch, ignore_errors=True)
        # remove the alternate build area of this scratch repo
        import hashlib
        alt = os.path.join(VERIF, "build", "alt-" + hashlib.sha256(scratch.encode()).hexdigest()[:10])
        shutil.rmtree(alt, ignore_errors=True)


def main():
    ap = argparse.ArgumentParser()
    ap.add_argument("pid")
    ap.add_argument("--tier", default="quick")
    ap.add_argument("--jobs", type=int, default=2)
    ap.add_argument("--only")
    ap.add_argument("--file")
    ap.add_argument("--seed", type=int, default=1)
    ap.add_argument("--no-write", action="store_true")
    a = ap.parse_args()
    f = a.file or os.path.join(VERIF, "props", a.pid, "mutations.py")
    spec = importlib.util.spec_from_file_location("muts", f)
    mod = importlib.util.module_from_spec(spec)
    spec.loader.exec_module(mod)
    muts = mod.MUTATIONS
    if a.only:
        muts = [m for m in muts if m["name"] in a.only.split(",")]
    with ThreadPoolExecutor(a.jobs) as ex:
        res = list(ex.map(lambda m: run_one(a.pid, m, a.tier, a.seed), muts))
    lines = ["# Sensitivity of %s (tier %s, seed %d)" % (a.pid, a.tier, a.seed), "",
             "Each mutation is applied alone to a scratch copy of /repo; the check must print VIOLATION.", "",
             "| mutation | file | result | wall s | first detail |", "|---|---|---|---|---|"]
    for m, r in zip(muts, res):
        print("%-50s %-10s %6.1fs %s" % (r["name"], r["status"], r["wall"], r.get("detail", "")[:100]))
        lines.append("| %s | %s | %s | %.0f | %s |" % (r["name"], m["file"], r["status"], r["wall"], r.get("detail", "").replace("|", "/")))
    notes = getattr(mod, "NOTES", "")
    if notes:
        lines += ["", notes]
    if not a.no_write and not a.only:
        open(os.path.join(VERIF, "props", a.pid, "SENSITIVITY.md"), "w").write("\n".join(lines) + "\n")
    sys.exit(0 if all(r["status"] == "caught" for r in res) else 1)


if __name__ == "__main__":
    main()
