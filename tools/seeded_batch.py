#!/usr/bin/env python3
"""Evaluate and import every change directory under a sub-agent's work directory.
usage: tools/seeded_batch.py <workdir> <round tag, e.g. r3> [--jobs 1]
Each sub-directory named Cnn_k is evaluated with tools/seeded.py (property = Cnn) and, if confirmed, imported as Cnn_<tag>_k with
needs_to_manifest taken from its notes.txt.  Misses are listed at the end (they are imported too, with caught=false)."""
import json
import os
import re
import subprocess
import sys

VERIF = os.path.dirname(os.path.dirname(os.path.abspath(__file__)))


def needs_from_notes(d):
    p = os.path.join(d, "notes.txt")
    if not os.path.exists(p):
        return "(see notes)"
    t = open(p, errors="replace").read()
    m = re.search(r"(?im)^\s*(?:what (?:it|is) need(?:s|ed)[^\n:]*|trigger[^\n:]*|needs? to manifest[^\n:]*|manifest[^\n:]*)[:\-]\s*(.+(?:\n(?!\s*\n).+){0,4})", t)
    s = m.group(1) if m else t.strip().split("\n\n")[1] if "\n\n" in t.strip() else t.strip()
    s = " ".join(s.split())
    return s[:420]


def main():
    wd, tag = sys.argv[1].rstrip("/"), sys.argv[2]
    res = []
    for name in sorted(os.listdir(wd)):
        m = re.match(r"^(C\d\d)_(\d+)$", name)
        d = os.path.join(wd, name)
        if not m or not os.path.exists(os.path.join(d, "patch.diff")):
            continue
        pid, k = m.group(1), m.group(2)
        newname = "%s_%s_%s" % (pid, tag, k)
        ev = os.path.join(VERIF, "build", "seedeval", newname + ".json")
        if not os.path.exists(ev) or os.path.getsize(ev) < 50:
            r = subprocess.run([sys.executable, os.path.join(VERIF, "tools", "seeded.py"), d, pid], capture_output=True, text=True)
            open(ev, "w").write(r.stdout if r.stdout.strip().startswith("{") else r.stdout[r.stdout.find("{"):])
        try:
            e = json.load(open(ev))
        except Exception:
            res.append((newname, "UNREADABLE", None))
            continue
        ok = all(e.get(x) for x in ["demo_original_passes", "patch_applies", "build_changed", "demo_changed_fails", "suite_passes_with_change"])
        if not ok and e.get("suite_passes_with_change") is False and "19-daemonize... FAILED" in e.get("suite_tail", "") + "":
            # known flaky test of the repository under load: re-run once
            r = subprocess.run([sys.executable, os.path.join(VERIF, "tools", "seeded.py"), d, pid], capture_output=True, text=True)
            open(ev, "w").write(r.stdout[r.stdout.find("{"):])
            e = json.load(open(ev))
            ok = all(e.get(x) for x in ["demo_original_passes", "patch_applies", "build_changed", "demo_changed_fails", "suite_passes_with_change"])
        caught = e.get("checks", {}).get(pid, {}).get("caught")
        if ok and not os.path.exists(os.path.join(VERIF, "seeded", newname, "meta.json")):  # never overwrite an import (it may carry re-evaluation history)
            subprocess.run([sys.executable, os.path.join(VERIF, "tools", "seeded_import.py"), d, ev, needs_from_notes(d), newname], capture_output=True, text=True)
        res.append((newname, "confirmed" if ok else "NOT-CONFIRMED %s" % {x: e.get(x) for x in ["demo_original_passes", "patch_applies", "build_changed", "demo_changed_fails", "suite_passes_with_change"]}, caught))
    for n, st, c in res:
        print("%-14s %-12s caught=%s" % (n, st, c))
    print("MISSES:", [n for n, st, c in res if st == "confirmed" and not c])


if __name__ == "__main__":
    main()
