#!/usr/bin/env python3
"""Regenerates DESIGN.md section 11 (which checks catch which changes) from seeded/*/meta.json and props/*/SENSITIVITY.md."""
import glob
import json
import os
import re

VERIF = os.path.dirname(os.path.dirname(os.path.abspath(__file__)))
BEGIN, END = "<!-- BEGIN GENERATED: catch tables -->", "<!-- END GENERATED: catch tables -->"


def main():
    out = [BEGIN, "", "### 11.1 Independently written seeded changes (`seeded/<id>/`)", "",
           "Each change was written by a fresh sub-agent that saw only the property text and a scratch worktree; it was kept only after",
           "`tools/seeded.py` confirmed, in a scratch copy of /repo: the demonstration passes on the original tree, the patch applies and builds",
           "without new warnings, the demonstration fails with the change, and the repository's own suite (`make test`) still passes with it.",
           "Then the property's quick check was run against the changed tree.", "",
           "| id | property | what it needs to manifest | check | caught | wall s | first detail |", "|---|---|---|---|---|---|---|"]
    n = c = 0
    for mp in sorted(glob.glob(os.path.join(VERIF, "seeded", "*", "meta.json"))):
        m = json.load(open(mp))
        for chk, r in m.get("checks", {}).items():
            n += 1
            c += 1 if r["caught"] else 0
            out.append("| %s | %s | %s | %s | %s | %s | %s |" % (m["id"], m["property"], m["needs_to_manifest"].replace("|", "/"), chk,
                                                                   "yes" if r["caught"] else "**no**", r["wall_s"], r["first_detail"].replace("detail: ", "").replace("|", "/")[:140]))
    out += ["", "%d of %d seeded changes are caught by the quick tier of the property's check.%s" % (c, n, ""), ""]
    out += ["### 11.2 Hand-written mutations (`props/Cnn/mutations.py`, results in `props/Cnn/SENSITIVITY.md`)", "",
            "| property | mutations tried | caught | not caught (see the file for why) |", "|---|---|---|---|"]
    for sp in sorted(glob.glob(os.path.join(VERIF, "props", "*", "SENSITIVITY.md"))):
        t = open(sp).read()
        rows = [l for l in t.split("\n") if l.startswith("|") and not l.startswith("|---") and not re.match(r"\|\s*(mutation|#|property|id)\b", l)]
        caught = sum(1 for l in rows if re.search(r"\|\s*(caught|CAUGHT|yes)\b", l))
        missed = [l.split("|")[1].strip()[:60] for l in rows if re.search(r"MISSED|missed|not caught|masked|equivalent", l) and not re.search(r"\|\s*caught", l)]
        out.append("| %s | %d | %d | %s |" % (os.path.basename(os.path.dirname(sp)), len(rows), caught, "; ".join(missed) if missed else "-"))
    out += ["", END]
    p = os.path.join(VERIF, "DESIGN.md")
    s = open(p).read()
    block = "\n".join(out)
    if BEGIN in s:
        s = s[:s.index(BEGIN)] + block + s[s.index(END) + len(END):]
    else:
        s = s.rstrip("\n") + "\n\n## 11. Which checks catch which changes\n\n" + block + "\n"
    open(p, "w").write(s)
    print("seeded: %d/%d caught" % (c, n))


if __name__ == "__main__":
    main()
