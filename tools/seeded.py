#!/usr/bin/env python3
"""Confirm and evaluate a seeded change (a patch written by an independent sub-agent).

usage: tools/seeded.py <dir with patch.diff, demo.c/demo.sh, notes.txt> <property id> [--no-suite] [--checks C04,C05] [--tier quick]

Steps (all in a scratch copy of /repo under /tmp, removed afterwards; /repo is never touched):
  1. demo on the ORIGINAL tree must pass;
  2. patch applies, library builds;
  3. demo on the CHANGED tree must fail;
  4. the repository's own suite (`make test`) must still pass with the change (skipped with --no-suite);
  5. each listed check (default: the property's own) is run against the changed tree via VERIF_REPO.
Prints a JSON summary (and returns 0 iff steps 1-4 hold).
"""
import argparse
import json
import os
import shutil
import subprocess
import sys
import time

VERIF = os.path.dirname(os.path.dirname(os.path.abspath(__file__)))


def sh(cmd, cwd=None, env=None, timeout=3600):
    r = subprocess.run(cmd, shell=True, cwd=cwd, env=env, capture_output=True, text=True, errors="replace", timeout=timeout)
    return r.returncode, (r.stdout + r.stderr)


def run_demo(d, repo):
    env = dict(os.environ, REPO=repo)
    if os.path.exists(os.path.join(d, "demo.sh")):
        return sh("sh ./demo.sh", cwd=d, env=env, timeout=900)
    # default: compile demo.c against every library source it may need
    return sh("echo 'no demo.sh'; exit 99", cwd=d, env=env)


def main():
    ap = argparse.ArgumentParser()
    ap.add_argument("dir")
    ap.add_argument("pid")
    ap.add_argument("--no-suite", action="store_true")
    ap.add_argument("--checks")
    ap.add_argument("--tier", default="quick")
    a = ap.parse_args()
    d = os.path.abspath(a.dir)
    tag = os.path.basename(d.rstrip("/"))
    scratch = "/tmp/seedchk_%s_%d" % (tag, os.getpid())
    res = dict(dir=d, property=a.pid)
    shutil.rmtree(scratch, ignore_errors=True)
    shutil.copytree("/repo", scratch, symlinks=True, ignore=shutil.ignore_patterns("tests-output", "tests-valgrind"))
    try:
        sh("git checkout -q -- . ; git clean -fdxq -e cpusupport-config.h -e apisupport-config.h -e cflags-filter.sh -e posix-flags.sh", cwd=scratch)
        rc, out = sh("make all", cwd=scratch)
        res["build_original"] = rc == 0
        rc, out = run_demo(d, scratch)
        res["demo_original_passes"] = rc == 0
        res["demo_original_tail"] = out[-300:]
        rc, out = sh("git apply --whitespace=nowarn %s" % os.path.join(d, "patch.diff"), cwd=scratch)
        res["patch_applies"] = rc == 0
        if rc != 0:
            res["patch_error"] = out[-300:]
        rc, out = sh("make all", cwd=scratch)
        res["build_changed"] = rc == 0
        res["new_warnings"] = "warning:" in out
        rc, out = run_demo(d, scratch)
        res["demo_changed_fails"] = rc != 0
        res["demo_changed_tail"] = out[-300:]
        if not a.no_suite:
            t = time.time()
            rc, out = sh("make test", cwd=scratch, timeout=3600)
            res["suite_passes_with_change"] = rc == 0 and "FAILED" not in out
            res["suite_s"] = round(time.time() - t)
            res["suite_tail"] = out[-200:]
        checks = (a.checks.split(",") if a.checks else [a.pid])
        res["checks"] = {}
        for c in checks:
            env = dict(os.environ, VERIF_REPO=scratch)
            t = time.time()
            for attempt in range(3):  # an exit code other than 0/1 is a driver problem (e.g. two builds racing), not a verdict
                rc, out = sh("%s %s --tier %s" % (os.path.join(VERIF, "check"), c, a.tier), env=env, timeout=7200)
                if rc in (0, 1):
                    break
                time.sleep(20)
            det = [l.strip() for l in out.split("\n") if l.strip().startswith("detail:")]
            res["checks"][c] = dict(rc=rc, caught=(rc == 1 and "VIOLATION property=" in out), wall_s=round(time.time() - t), detail=(det[0][:300] if det else ""))
    finally:
        shutil.rmtree(scratch, ignore_errors=True)
        import hashlib
        shutil.rmtree(os.path.join(VERIF, "build", "alt-" + hashlib.sha256(scratch.encode()).hexdigest()[:10]), ignore_errors=True)
    print(json.dumps(res, indent=1))
    ok = res.get("demo_original_passes") and res.get("patch_applies") and res.get("build_changed") and res.get("demo_changed_fails") and (a.no_suite or res.get("suite_passes_with_change"))
    sys.exit(0 if ok else 1)


if __name__ == "__main__":
    main()
